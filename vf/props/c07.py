"""C07 - applying a rewrite replaces only the match and leaves a valid, equivalent graph.

Bounded-exhaustive: rule x number of instances x (site, wiring) of every instance x host flags, enumerated by
the choice-tree explorer (rule and k exhaustive, placements deviation-bounded).  Every leaf builds the host with
onnx.helper (vf/props/c07_hosts.py), applies the rule through the three public entry points with the REAL
rewriter, and checks the result with oracles that do not use onnxscript.
"""
from __future__ import annotations

import collections
import json

import numpy as np
import onnx

from vf import explore
from vf.props import c07_hosts as H

ID = "C07"
LEVEL = "model_checking"
RULE = ("choice tree: rule (exhaustive, 17 generated rules whose replacement equals the pattern by construction) x "
        "k in 0..3 instances (exhaustive) x per instance site {main, then, else, loop, func, deep, deep_loop, func_if} "
        "and wiring {plain, chain, gout, nested, inter, cross} x extra Neg {none, pre, post} x metadata {on, off} x "
        "existing-initializer clash {none, diff, same, diff_sub} (initializer rule only); placements/flags are "
        "deviation-bounded (see `bounds`).  Every leaf runs rewrite(ModelProto), rewrite(ir.Model) and "
        "RewriteRuleSet.apply_to_model on a fresh rule and host.  distinct_nontrivial = distinct "
        "(rule, blocks, extra, meta, clash) leaves whose original was admitted by ORT and onnx.reference and whose "
        "results reached the oracle")
ASSUMPTIONS = [
    "onnx.checker (full_check), vf.wf, onnxruntime CPU (optimisations disabled) and onnx.reference define validity "
    "and what a model computes",
    "the independent matcher in c07_hosts.find_instances decides which nodes belong to an instance of the fixed "
    "patterns and whether the instance is removable (intermediates have no outside consumer and are not outputs)",
    "generated rules carry a guard (condition function refusing a root node the rule itself emitted) so that "
    "re-emitting rules terminate; the guard uses only MatchContext.root",
    "onnx_ir (serde, passes, convenience.replace_nodes_and_values) is exercised as part of the system under test",
]

# rule name -> (pattern kind, remove_nodes, as_function, uses initializer)
RULES = collections.OrderedDict([
    ("neg_reemit", ("neg", True, False, False)),
    ("negneg_reemit", ("negneg", True, False, False)),
    ("addmul_reemit", ("addmul", True, False, False)),
    # forwarding replacement: Neg(Neg(x)) -> x (no new node; the matched output is taken over by an existing value)
    ("negneg_fwd", ("negneg", True, False, False)),
    ("add_swap", ("add", True, False, False)),
    ("relu_tt", ("relu", True, False, False)),
    ("neg_mul1_const", ("neg", True, False, False)),
    ("neg_mul1_init", ("neg", True, False, True)),
    # replacement in a domain the host does not import: ai.onnx.ml::Scaler(x, offset=0, scale=-1) == Neg(x);
    # the rewriter must add the opset import wherever the match sits
    ("neg_mlscaler", ("neg", True, False, False)),
    ("split_reemit", ("split", True, False, False)),
    ("pair_reemit", ("pair", True, False, False)),
    ("pair_rev_reemit", ("pair_rev", True, False, False)),
    ("neg_keep", ("neg", False, False, False)),
    ("negneg_keep", ("negneg", False, False, False)),
    ("addmul_keep", ("addmul", False, False, False)),
    ("split_keep", ("split", False, False, False)),
    ("negneg_fn", ("negneg", True, True, False)),
    ("addmul_fn", ("addmul", True, True, False)),
    ("split_fn", ("split", True, True, False)),
])
APIS = ["proto", "ir", "ruleset"]
SEVERITY = ["raised", "invalid-checker", "invalid-wf", "ort-load", "ort-run", "not-equivalent", "signature",
            "init-changed", "unmatched-changed", "removed-unremovable", "fn-body", "not-applied", "count-mismatch"]


# ---------------------------------------------------------------------------------------------------
# Generated rules (the only place that touches onnxscript's rule-authoring API)
# ---------------------------------------------------------------------------------------------------

def make_rule(rname):
    from onnxscript import ir
    from onnxscript.rewriter import pattern
    kind, remove, as_fn, _ = RULES[rname]
    emitted = []

    def guard(context, **_):
        root = context.root
        return all(root is not n for n in emitted)

    def E(v):
        first = v[0] if isinstance(v, (list, tuple)) else v
        emitted.append(first.producer())
        return v

    if kind == "neg":
        def pat(op, x):
            return op.Neg(x)
        if rname in ("neg_reemit", "neg_keep"):
            def rep(op, x):
                return E(op.Neg(x))
        elif rname == "neg_mul1_const":
            def rep(op, x):
                return op.Mul(E(op.Neg(x)), op.Constant(value_float=1.0))
        elif rname == "neg_mlscaler":
            def rep(op, x):
                return op.Scaler(x, offset=[0.0], scale=[-1.0], _domain="ai.onnx.ml")
        elif rname == "neg_mul1_init":
            def rep(op, x):
                one = op.initializer(ir.tensor(np.array(1.0, dtype=np.float32)), name=H.INIT_NAME)
                return op.Mul(E(op.Neg(x)), one)
    elif kind == "negneg":
        def pat(op, x):
            return op.Neg(op.Neg(x))
        if as_fn:
            def rep(op, x):
                return op.NegNeg(x, _domain=H.FN_DOMAIN)
        elif rname == "negneg_fwd":
            def rep(op, x):
                return x
        else:
            def rep(op, x):
                return E(op.Neg(E(op.Neg(x))))
    elif kind == "addmul":
        def pat(op, x, y, z):
            return op.Mul(op.Add(x, y), z)
        if as_fn:
            def rep(op, x, y, z):
                return op.AddMul(x, y, z, _domain=H.FN_DOMAIN)
        else:
            def rep(op, x, y, z):
                return E(op.Mul(E(op.Add(x, y)), z))
    elif kind == "add":
        def pat(op, x, y):
            return op.Add(x, y)

        def rep(op, x, y):
            return E(op.Add(y, x))
    elif kind == "relu":
        def pat(op, x):
            return op.Relu(x)

        def rep(op, x):
            return op.Transpose(op.Transpose(E(op.Relu(x)), perm=[1, 0]), perm=[1, 0])
    elif kind == "split":
        def pat(op, x, axis, n):
            return op.Split(x, axis=axis, num_outputs=n, _outputs=2)
        if as_fn:
            def rep(op, x, axis, n):
                return op.SplitFn(x, _domain=H.FN_DOMAIN, _outputs=2)
        else:
            def rep(op, x, axis, n):
                return E(op.Split(x, axis=axis, num_outputs=n, _outputs=2))
    elif kind == "pair":
        def pat(op, x):
            return op.Neg(x), op.Relu(x)

        def rep(op, x):
            return E(op.Neg(x)), E(op.Relu(x))
    elif kind == "pair_rev":
        def pat(op, x):
            return op.Relu(x), op.Neg(x)

        def rep(op, x):
            return E(op.Relu(x)), E(op.Neg(x))
    else:
        raise KeyError(kind)
    return pattern.RewriteRule(pat, rep, guard, name="c07rule", remove_nodes=remove, as_function=as_fn)


# ---------------------------------------------------------------------------------------------------
# Enumeration
# ---------------------------------------------------------------------------------------------------
BOUNDS = {"quick": {0: 9, 1: 9, 2: 2, 3: 1}, "thorough": {0: 9, 1: 9, 2: 9, 3: 3}}


def _driver_for(k, rname):
    kind, _, _, uses_init = RULES[rname]

    def driver(ch):
        blocks = []
        for i in range(k):
            site = ch.choose(f"site{i}", H.SITES)
            wiring = ch.choose(f"wire{i}", H.WIRINGS)
            if not H.valid_combo(kind, site, wiring):
                raise explore.Prune()
            blocks.append([site, wiring])
        extra = ch.choose("extra", H.EXTRAS)
        meta = ch.choose("meta", ["on", "off"])
        clash = ch.choose("clash", H.CLASHES) if uses_init else "none"
        return {"rule": rname, "kind": kind, "blocks": blocks, "extra": extra, "meta": meta, "clash": clash}
    return driver


def plan(tier, seed):
    st = explore.Stats()
    items = []
    per = {}
    for rname in RULES:
        for k in (0, 1, 2, 3):
            b = BOUNDS[tier][k]
            n0 = st.leaves
            for picks, case in explore.explore(_driver_for(k, rname), bound=b, stats=st):
                items.append(case)
            per[f"k{k}"] = per.get(f"k{k}", 0) + st.leaves - n0
    from vf.props import c07_fnconst, c07_stages
    fc = c07_fnconst.plan_items()
    items.extend(fc)
    per["fnconst"] = len(fc)
    sg_ = c07_stages.plan_items(tier)
    items.extend(sg_)
    per["stages"] = len(sg_)
    fc = fc + sg_
    d = st.as_dict()
    d["states"] += len(fc) + 1
    d["transitions"] += len(fc)
    d["leaves"] += len(fc)
    d["bound"] = BOUNDS[tier][3]   # the tightest one (k=3); per-k bounds below
    d["bounds"] = {f"k={k}": ("all placements and flags" if b >= 2 * k + 3 else
                              f"<= {b} deviations from the default (every block main/plain, extra none, "
                              f"metadata on, clash none)")
                   for k, b in BOUNDS[tier].items()}
    d["exhaustive"] = not st.capped
    d["dimensions"] = {k: len(v) for k, v in st.dim_hist.items()}
    d["dimensions"]["rule"] = len(RULES)
    d["dimensions"]["k"] = 4
    d["leaves_per_k"] = per
    # the explorer is run once per (rule, k): one root state each
    return items, d


# ---------------------------------------------------------------------------------------------------
# Execution
# ---------------------------------------------------------------------------------------------------

def _feeds():
    base = np.arange(6, dtype=np.float32).reshape(2, 3)
    vals = [
        (base - 2.5, base * 0.5 + 1.0, 0.25 - base),
        (np.array([[0.0, -1.0, 2.0], [0.5, -0.25, 1.5]], dtype=np.float32),
         np.array([[1.0, 2.0, -3.0], [0.75, -1.25, 0.5]], dtype=np.float32),
         np.array([[-2.0, 0.5, 1.0], [3.0, -0.5, 0.125]], dtype=np.float32)),
        (-(base + 1.0) / 4.0, (base - 1.0) / 3.0, (base % 2.0) - 0.5),
    ]
    out = []
    for (x, y, w) in vals:
        for c in (True, False):
            out.append({"x": x.astype(np.float32), "y": y.astype(np.float32), "w": w.astype(np.float32),
                        "c": np.array(c)})
    return out


FEEDS = None


def _apply(api, rname, s0):
    """-> (ModelProto result, count|None).  Raises whatever the rewriter raises."""
    from onnxscript import ir
    from onnxscript.rewriter import RewriteRuleSet, rewrite
    rule = make_rule(rname)
    proto = onnx.ModelProto.FromString(s0)
    if api == "proto":
        out = rewrite(proto, [rule])
        if not isinstance(out, onnx.ModelProto):
            raise TypeError(f"rewrite(ModelProto) returned {type(out).__name__}")
        return out, None
    model = ir.serde.deserialize_model(proto)
    if api == "ir":
        out = rewrite(model, [rule])
        if not isinstance(out, ir.Model):
            raise TypeError(f"rewrite(ir.Model) returned {type(out).__name__}")
        return ir.serde.serialize_model(out), None
    count = RewriteRuleSet([rule]).apply_to_model(model)
    return ir.serde.serialize_model(model), count


def _fn_body_problems(rname, kind, view0, insts, m2, view2, orig_fn_keys):
    probs = []
    n_new = 0
    pat = H.PATTERNS[kind]
    for f in m2.functions:
        key = (f.domain, f.name, getattr(f, "overload", ""))
        if key in orig_fn_keys:
            continue
        n_new += 1
        top = f"func:{f.domain}:{f.name}:{key[2]}"
        if f.domain != H.FN_DOMAIN:
            probs.append(f"new function in unexpected domain {key}")
            continue
        fin = [i for i in H.find_instances(view2, kind) if i.scope == top]
        body = view2.scopes[top]["nodes"]
        full = [i for i in fin if len(i.nodes) == len(body)]
        if len(body) != len(pat["nodes"]) or not full:
            probs.append(f"function {key}: body {[r.op for r in body]} is not one instance of the pattern")
            continue
        fi = full[0]
        if list(f.output) != list(fi.outputs):
            probs.append(f"function {key}: outputs {list(f.output)} are not the instance outputs {fi.outputs}")
        for v, formal in fi.bindings.items():
            if formal not in list(f.input):
                probs.append(f"function {key}: pattern variable {v} bound to non-input {formal}")
        calls = [r for r in view2.nodes if (r.domain, r.op, r.overload) == key]
        if not calls:
            probs.append(f"function {key}: no call node")
        for call in calls:
            cand = [i for i in insts if tuple(i.outputs) == tuple(call.outputs)]
            if not cand:
                probs.append(f"call {call.name}: outputs {call.outputs} are not the outputs of an original instance")
                continue
            oi = cand[0]
            for fnode, onode in zip(fi.nodes, oi.nodes):
                if (fnode.op, fnode.domain, fnode.attrs) != (onode.op, onode.domain, onode.attrs):
                    probs.append(f"function {key}: node {fnode.op} attrs differ from matched node {onode.name}")
            if len(call.inputs) != len(f.input):
                probs.append(f"call {call.name}: {len(call.inputs)} inputs vs {len(f.input)} formals")
                continue
            actual = dict(zip(f.input, call.inputs))
            for v, formal in fi.bindings.items():
                if formal in actual and actual[formal] != oi.bindings.get(v):
                    probs.append(f"call {call.name}: variable {v} gets {actual[formal]} but the match bound {oi.bindings.get(v)}")
    return probs, n_new


def _oracle(item, host, s0, view0, insts, base_outs, sig0, m2, count):
    """-> (list of (kind, detail), info dict)"""
    from vf import runeq
    rname = item["rule"]
    kind, remove, as_fn, uses_init = RULES[rname]
    found = []
    info = {}
    try:
        onnx.checker.check_model(m2, full_check=True)
    except Exception as e:  # noqa: BLE001
        found.append(("invalid-checker", str(e)[:300]))
    p = H.wf_problems(m2)
    if p:
        found.append(("invalid-wf", p[:4]))
    if H.signature(m2) != sig0:
        found.append(("signature", {"inputs": [i.name for i in m2.graph.input],
                                    "outputs": [o.name for o in m2.graph.output]}))
    view2 = H.View(m2)
    # --- untouched part
    in_some = set()
    in_removable = set()
    for i in insts:
        for n in i.names():
            in_some.add(n)
            if i.removable or not remove:
                in_removable.add(n)
    after_by_name = view2.by_name
    for r in view0.nodes:
        if r.name in in_some:
            continue
        got = after_by_name.get(r.name, [])
        if len(got) != 1:
            found.append(("unmatched-changed", f"unmatched node {r.name} ({r.op}) occurs {len(got)} times after"))
        elif got[0].desc() != r.desc():
            a, bb = got[0].desc(), r.desc()
            what = [f for f, x, y in zip(("scope", "domain", "op", "name", "attrs", "metadata", "outputs"), a, bb) if x != y]
            found.append(("unmatched-changed", f"unmatched node {r.name} ({r.op}) differs in {what}"))
    removed = [r for r in view0.nodes if r.name not in after_by_name]
    if remove:
        bad = [r.name for r in removed if r.name not in in_removable]
        if bad:
            found.append(("removed-unremovable", f"nodes {bad} removed although in no removable instance"))
    else:
        bad = [r.name for r in removed if r.name not in in_some]
        if bad:
            found.append(("removed-unremovable", f"nodes {bad} removed although outside every instance"))
    names0 = collections.Counter(r.name for r in view0.nodes)
    names2 = collections.Counter(r.name for r in view2.nodes)
    fired = names0 != names2
    info["fired"] = fired
    # --- initializers
    for path, sc in view0.scopes.items():
        for nme, content in sc["inits"].items():
            sc2 = view2.scopes.get(path)
            if sc2 is None or sc2["inits"].get(nme) != content:
                found.append(("init-changed", f"initializer {nme} of {path} is "
                              f"{'missing' if sc2 is None or nme not in sc2['inits'] else 'different'} after"))
    info["new_inits"] = sum(len(sc["inits"]) for sc in view2.scopes.values()) - \
        sum(len(sc["inits"]) for sc in view0.scopes.values())
    # --- must fire
    must = [i for i in insts if (i.removable or not remove)]
    refusal = None
    if uses_init:
        infn = [i for i in must if i.scope.startswith("func:")]
        if infn:
            refusal = "init-in-function"
        must = [i for i in must if not i.scope.startswith("func:")]
    info["must"] = len(must)
    info["refusal"] = refusal
    if must and not fired:
        found.append(("not-applied", f"{len(must)} applicable instance(s), model unchanged"))
    if count is not None:
        info["count"] = count
        if must and count < 1:
            found.append(("not-applied", f"{len(must)} applicable instance(s), count={count}"))
        if (count > 0) != fired:
            found.append(("count-mismatch", f"count={count} but model {'changed' if fired else 'unchanged'}"))
    if not insts and fired:
        found.append(("unmatched-changed", "no instance of the pattern, yet the node set changed"))
    # replaced instances per site / wiring (coverage)
    rep_sites = collections.Counter()
    for i in insts:
        if i.root.name not in after_by_name and i.root.name.startswith("b"):
            j = int(i.root.name[1:].split("_")[0])
            site, wiring = item["blocks"][j]
            rep_sites[f"replaced_site_{site}"] += 1
            rep_sites[f"replaced_wiring_{wiring}"] += 1
    info["rep"] = rep_sites
    # --- as_function
    orig_fn = {(f.domain, f.name, getattr(f, "overload", "")) for f in host.functions}
    probs, n_new = _fn_body_problems(rname, kind, view0, insts, m2, view2, orig_fn)
    info["new_functions"] = n_new
    if not as_fn and n_new:
        probs.append(f"{n_new} new function(s) from a rule without as_function")
    if as_fn and fired and not n_new:
        probs.append("as_function rule fired but no function was added")
    if probs:
        found.append(("fn-body", probs[:4]))
    for f in host.functions:
        if not any((g.domain, g.name) == (f.domain, f.name) and list(g.input) == list(f.input)
                   and len(g.output) == len(f.output) for g in m2.functions):
            found.append(("signature", f"function {f.domain}::{f.name} missing or its signature changed"))
    # --- execution
    mx = m2
    try:
        sess = runeq.make_session(m2)
    except runeq.RunError as e:
        sess = None
        first = e.msg[:300]
        if any(getattr(f, "overload", "") for f in m2.functions):
            # ORT cannot resolve an overloaded local function called from another function: run the same model
            # with overloads renamed to fresh function names (ONNX-equivalent), and say so
            mx = H.normalise_for_execution(m2)
            try:
                sess = runeq.make_session(mx)
                info["overload_normalised"] = True
            except runeq.RunError:
                sess = None
        if sess is None:
            found.append(("ort-load", first))
    if sess is not None:
        for fi, (feeds, want) in enumerate(zip(FEEDS, base_outs)):
            try:
                got = runeq.run_ort(mx, feeds, sess)
            except runeq.RunError as e:
                found.append(("ort-run", f"feed {fi}: {e.msg[:200]}"))
                break
            d = runeq.compare(want, got)
            if d:
                found.append(("not-equivalent", f"feed {fi} (c={bool(feeds['c'])}): {d}"))
                break
    return found, info


def _evaluate(item):
    """Run the three entry points on the host of `item`.
    -> None when the original is not admitted, else dict(per_api={api: [(kind, detail)]}, infos, host, results)"""
    from vf import runeq
    global FEEDS
    if FEEDS is None:
        FEEDS = _feeds()
    host = H.build_host(item)
    s0 = host.SerializeToString()
    view0 = H.View(host)
    insts = H.find_instances(view0, item["kind"])
    try:
        sess0 = runeq.make_session(s0)
    except runeq.RunError as e:
        return {"skip": "orig-ort-load", "host": host}
    base = []
    for feeds in FEEDS:
        o, why = runeq.admit(host, feeds, sess0)
        if o is None:
            return {"skip": "orig-" + why, "host": host}
        base.append(o)
    sig0 = H.signature(host)
    per_api, infos, cache = {}, {}, {}
    results = {}
    for api in APIS:
        try:
            m2, count = _apply(api, item["rule"], s0)
        except Exception as e:  # noqa: BLE001 - the statement gives the rewriter no licence to refuse these
            per_api[api] = [("raised", f"{type(e).__name__}: {str(e)[:300]}")]
            infos[api] = {"raised": True}
            continue
        b2 = m2.SerializeToString(deterministic=True)
        results[api] = b2
        ck = (b2, count is not None)
        if b2 in cache and count is None:
            per_api[api], infos[api] = cache[b2]
            continue
        found, info = _oracle(item, host, s0, view0, insts, base, sig0, m2, count)
        if count is None:
            cache[b2] = (found, info)
        per_api[api], infos[api] = found, info
        del ck
    return {"per_api": per_api, "infos": infos, "host": host, "insts": insts, "results": results}


FAMILY = {"raised": "raised", "invalid-checker": "invalid", "invalid-wf": "invalid", "ort-load": "invalid",
          "ort-run": "invalid", "not-equivalent": "not-equivalent", "signature": "structure",
          "init-changed": "structure", "unmatched-changed": "structure", "removed-unremovable": "structure",
          "fn-body": "fn-body", "not-applied": "not-applied", "count-mismatch": "not-applied"}


def _families(per_api):
    """{family: (most severe kind of the family over the entry points, [apis showing the family], detail)}"""
    out = {}
    for api in APIS:
        for kind, detail in per_api.get(api, []):
            fam = FAMILY[kind]
            rank = SEVERITY.index(kind)
            cur = out.get(fam)
            if cur is None:
                out[fam] = [rank, kind, [api], detail]
            else:
                if rank < cur[0]:
                    cur[0], cur[1], cur[3] = rank, kind, detail
                if api not in cur[2]:
                    cur[2].append(api)
    return {f: (v[1], v[2], v[3]) for f, v in out.items()}


def _placement(item, apis):
    s = "+".join(f"{a}:{b}" for a, b in item["blocks"]) or "none"
    for f, dflt in (("extra", "none"), ("clash", "none"), ("meta", "on")):
        if item.get(f, dflt) != dflt:
            s += f";{f}={item[f]}"
    if apis and len(apis) != len(APIS):
        s += ";api=" + ",".join(apis)
    return s


_FAM_CACHE = {}   # per worker; evaluation is deterministic, so memoising it cannot change any result


def _spec_key(c):
    return json.dumps([c["rule"], c["blocks"], c["extra"], c["meta"], c["clash"]])


def _fams_of(cand):
    """-> ({family: (kind, apis)}, evaluated?)"""
    ck = _spec_key(cand)
    ran = False
    if ck not in _FAM_CACHE:
        ran = True
        ev = _evaluate(cand)
        fams = {} if (ev is None or "skip" in ev) else _families(ev["per_api"])
        _FAM_CACHE[ck] = {f: (v[0], v[1]) for f, v in fams.items()}
    return _FAM_CACHE[ck], ran


def _minimise(item, family, budget=80):
    """Greedy reduction of the host while a violation of the same family persists."""
    cur = json.loads(json.dumps(item))
    pk = item["kind"]
    runs = 0

    def still(cand):
        nonlocal runs
        runs += 1          # candidates tried (not evaluations: the memo must not influence the result)
        fams, _ran = _fams_of(cand)
        return family in fams

    changed = True
    while changed and runs < budget:
        changed = False
        cands = []
        for i in reversed(range(len(cur["blocks"]))):
            c = json.loads(json.dumps(cur))
            del c["blocks"][i]
            cands.append(c)
        for f, dflt in (("clash", "none"), ("extra", "none"), ("meta", "on")):
            if cur.get(f, dflt) != dflt:
                c = json.loads(json.dumps(cur))
                c[f] = dflt
                cands.append(c)
        # canonical forms of the flags: an extra Neg is, for Neg-rooted patterns, one more chained instance;
        # a clash whose consumer sits in a subgraph is first tried with the consumer in the main graph
        if cur.get("extra", "none") != "none" and len(cur["blocks"]) < 3 and pk == "neg":
            c = json.loads(json.dumps(cur))
            if c["extra"] == "pre":
                c["blocks"].insert(0, ["main", "chain"])
            else:
                c["blocks"].append(["main", "chain"])
            c["extra"] = "none"
            cands.append(c)
        if cur.get("extra") == "post":
            c = json.loads(json.dumps(cur))
            c["extra"] = "pre"
            cands.append(c)
        if cur.get("clash") == "diff_sub":
            c = json.loads(json.dumps(cur))
            c["clash"] = "diff"
            cands.append(c)
        for i, (site, wiring) in enumerate(cur["blocks"]):
            if wiring != "plain":
                c = json.loads(json.dumps(cur))
                c["blocks"][i][1] = "plain"
                cands.append(c)
            # canonical representatives: main, else then (for any If/Loop nesting), else func (for func_if)
            for canon in ("main", "then", "func"):
                if site == canon:
                    break
                if canon == "func" and site != "func_if":
                    continue
                if H.valid_combo(pk, canon, wiring):
                    c = json.loads(json.dumps(cur))
                    c["blocks"][i][0] = canon
                    cands.append(c)
        for c in cands:
            if runs >= budget:
                break
            if still(c):
                cur = c
                changed = True
                break
    return cur, runs


def execute(item):
    if item.get("fam") == "fnconst":
        from vf.props import c07_fnconst
        return c07_fnconst.execute(item)
    if item.get("fam") == "stages":
        from vf.props import c07_stages
        return c07_stages.execute(item)
    ev = _evaluate(item)
    nkey = "|".join([item["rule"], "+".join(f"{a}:{b}" for a, b in item["blocks"]), item["extra"], item["meta"],
                     item["clash"]])
    if "skip" in ev:
        return {"status": "skip", "skip": ev["skip"], "outcome": "skip:" + ev["skip"], "nkey": nkey,
                "show": H.render(ev["host"])}
    per_api, infos, insts = ev["per_api"], ev["infos"], ev["insts"]
    counts = collections.Counter()
    counts["extra_evaluations"] = len(APIS) - 1
    counts["api_runs"] = len(APIS)
    counts["instances"] = len(insts)
    counts["removable_instances"] = sum(1 for i in insts if i.removable)
    counts["distinct_results"] = len(set(ev["results"].values()))
    fired_any = False
    cnt = None
    for api in APIS:
        inf = infos.get(api, {})
        if inf.get("fired"):
            counts["fired_" + api] += 1
            fired_any = True
        if inf.get("overload_normalised"):
            counts["ran_with_overloads_renamed_" + api] += 1
        if inf.get("refusal"):
            counts["refusal_" + inf["refusal"]] += 1
        if "count" in inf:
            cnt = inf["count"]
            counts["ruleset_count_total"] += inf["count"]
        if api == "proto":
            counts["new_functions"] += inf.get("new_functions", 0)
            counts["new_initializers"] += max(0, inf.get("new_inits", 0))
            for k2, v2 in (inf.get("rep") or {}).items():
                counts[k2] += v2
    nrem = sum(1 for i in insts if i.removable)
    outcome = f"{'fired' if fired_any else 'nofire'}:count={cnt}:inst={min(len(insts), 5)}:removable={min(nrem, 5)}"
    fams = _families(per_api)
    _FAM_CACHE[_spec_key(item)] = {f: (v[0], v[1]) for f, v in fams.items()}
    viols = []
    order = sorted(fams, key=lambda f: SEVERITY.index(fams[f][0]))
    for fam in order:
        kind, apis, detail = fams[fam]
        mini, runs = _minimise(item, fam)
        counts["minimisation_candidates"] += runs
        mf, _ = _fams_of(mini)
        if fam in mf:
            mkind, mapis = mf[fam]
        else:
            mini, mkind, mapis = item, kind, apis
        key = f"C07|{mkind}|{item['rule']}|{_placement(mini, mapis)}"
        viols.append({"key": key, "detail": {"kind": kind, "apis": apis, "what": detail,
                                             "all": {a: [[k, str(d)[:200]] for k, d in per_api.get(a, [])] for a in APIS},
                                             "minimal_host": {k: mini[k] for k in ("blocks", "extra", "meta", "clash")}}})
    if viols:
        outcome = "viol:" + "+".join(fams[f][0] for f in order)
    show = f"{nkey} -> {outcome}"
    if viols or len(item["blocks"]) <= 1 or (len(item["blocks"]) == 3 and item["extra"] != "none"):
        show += "\n" + H.render(ev["host"], 1500)
    return {"status": "viol" if viols else "ok", "outcome": outcome, "nkey": nkey, "counts": dict(counts),
            "viols": viols, "show": show}


def summarize(items, results, tier):
    sites = collections.Counter()
    wirings = collections.Counter()
    rules_fired = collections.Counter()
    for it, r in zip(items, results):
        for s, w in it["blocks"]:
            sites[s] += 1
            wirings[w] += 1
        if r.get("status") in ("ok", "viol") and str(r.get("outcome", "")).startswith(("fired", "viol")):
            rules_fired[it["rule"]] += 1
    return {"site_histogram": dict(sites), "wiring_histogram": dict(wirings),
            "leaves_fired_per_rule": dict(rules_fired), "rules": list(RULES), "apis": APIS}
