"""C08 end to end: every module f(x) and g(f(x), y) over an op subset is exported with
torch.onnx.export(dynamo=True) and run on ORT; the result must equal the module's eager output.

A module torch eager refuses is outside the domain (skipped, counted); a module torch.export cannot capture
(step 1/2 of the exporter, before any torchlib function is involved) is skipped and counted as well.
"""
from __future__ import annotations

import collections
import json

from vf import explore

# f: x -> tensor
F = collections.OrderedDict([
    ("relu", lambda t, x: t.relu(x)),
    ("neg", lambda t, x: -x),
    ("abs", lambda t, x: t.abs(x)),
    ("exp", lambda t, x: t.exp(x)),
    ("sigmoid", lambda t, x: t.sigmoid(x)),
    ("floor", lambda t, x: t.floor(x)),
    ("sum_dim-1_keep", lambda t, x: x.sum(dim=-1, keepdim=True)),
    ("mean_dim0", lambda t, x: x.mean(dim=0)),
    ("amax_nodim", lambda t, x: t.amax(x)),
    ("softmax_dim-1", lambda t, x: t.softmax(x, dim=-1)),
    ("transpose", lambda t, x: x.transpose(0, 1)),
    ("reshape_-1", lambda t, x: x.reshape(-1)),
    ("unsqueeze0", lambda t, x: x.unsqueeze(0)),
    ("cumsum_dim1", lambda t, x: t.cumsum(x, dim=1)),
    ("slice_1:", lambda t, x: x[:, 1:]),
    ("select_-1", lambda t, x: x[-1]),
    ("clamp_-1_1", lambda t, x: t.clamp(x, min=-1, max=1)),
    ("to_f64", lambda t, x: x.to(t.float64)),
    ("mul_2", lambda t, x: x * 2),
    ("add_1.5", lambda t, x: x + 1.5),
    ("add_2_alpha2", lambda t, x: t.add(x, 2, alpha=2)),
    ("max_dim1_values", lambda t, x: x.max(dim=1).values),
    ("argmax_dim-1", lambda t, x: t.argmax(x, dim=-1)),
    ("gt_0", lambda t, x: x > 0),
    ("where_gt0", lambda t, x: t.where(x > 0, x, 0)),
    ("tril", lambda t, x: t.tril(x)),
    ("squeeze_dim0", lambda t, x: x.squeeze(0)),
    ("identity", lambda t, x: x.clone()),
])

# g: (a, y) -> tensor
G = collections.OrderedDict([
    ("add", lambda t, a, y: a + y),
    ("sub", lambda t, a, y: a - y),
    ("rsub_alpha", lambda t, a, y: t.sub(y, a, alpha=2)),
    ("mul", lambda t, a, y: a * y),
    ("div", lambda t, a, y: a / y),
    ("div_floor", lambda t, a, y: t.div(a, y, rounding_mode="floor")),
    ("div_trunc", lambda t, a, y: t.div(a, y, rounding_mode="trunc")),
    ("floor_divide", lambda t, a, y: a // y),
    ("remainder", lambda t, a, y: a % y),
    ("fmod", lambda t, a, y: t.fmod(a, y)),
    ("pow", lambda t, a, y: t.pow(a, 2) + y),
    ("maximum", lambda t, a, y: t.maximum(a, y)),
    ("minimum", lambda t, a, y: t.minimum(a, y)),
    ("atan2", lambda t, a, y: t.atan2(a, y)),
    ("eq", lambda t, a, y: a == y),
    ("lt", lambda t, a, y: a < y),
    ("where", lambda t, a, y: t.where(a > y, a, y)),
    ("cat0", lambda t, a, y: t.cat([a, y], dim=0)),
    ("cat-1", lambda t, a, y: t.cat([a, y], dim=-1)),
    ("stack", lambda t, a, y: t.stack([a, y], dim=1)),
    ("matmul_T", lambda t, a, y: a @ y.transpose(-1, -2)),
    ("logical_and", lambda t, a, y: t.logical_and(a, y)),
    ("masked_fill", lambda t, a, y: a.masked_fill(y > 1, 2)),
    ("addcmul", lambda t, a, y: t.addcmul(a, y, y, value=2)),
    ("lerp", lambda t, a, y: t.lerp(a, y, 0.5)),
])

XDT = ["f32", "i64"]
YDT = ["f32", "i64"]


def _driver(ch):
    f = ch.all("f", list(F))
    g = ch.all("g", ["-"] + list(G))
    xdt = ch.all("xdt", XDT)
    # operand dtype pairs: both dtypes against a float y, and a float x against an integer y (exporter-side promotion)
    ydt = "-" if g == "-" else ch.all("ydt", ["f32"] if xdt == "i64" else YDT)
    return {"f": f, "g": g, "xdt": xdt, "ydt": ydt}


def plan():
    st = explore.Stats()
    by_f = collections.OrderedDict()
    for _, case in explore.explore(_driver, bound=0, stats=st):
        by_f.setdefault(case["f"], []).append(case)
    items = [{"kind": "e2e", "fam": "e2e", "op": f"e2e:{f}", "part": "", "cases": cs} for f, cs in by_f.items()]
    d = st.as_dict()
    d["dimensions"] = {k: len(v) for k, v in st.dim_hist.items()}
    return items, d


def _module(torch, f, g):
    ff = F[f] if f is not None else None
    if g == "-":
        class M1(torch.nn.Module):
            def forward(self, x):
                return ff(torch, x)
        return M1()
    gg = G[g]
    if ff is None:
        class M0(torch.nn.Module):
            def forward(self, a, y):
                return gg(torch, a, y)
        return M0()

    class M2(torch.nn.Module):
        def forward(self, x, y):
            return gg(torch, ff(torch, x), y)
    return M2()


def _root(e):
    chain = []
    while e is not None:
        chain.append(e)
        e = e.__cause__
    return chain


def run_module(m, args):
    """-> (verdict, info): ok | skip:<reason> | e2e-export-fails | e2e-run-fails | e2e-dtype|shape|value|structure"""
    from vf import runeq
    from vf.props import c08_core as K
    torch = K.T()["torch"]
    try:
        with torch.no_grad():
            expected = m(*[a.clone() for a in args])
    except Exception as e:  # noqa: BLE001
        return "skip:torch-raises", str(e)[:100]
    from torch.onnx._internal.exporter import _errors
    try:
        prog = torch.onnx.export(m, args, dynamo=True, verbose=False)
    except _errors.TorchExportError as e:
        return "skip:torch.export-cannot-capture", str(e)[:100]
    except Exception as e:  # noqa: BLE001
        chain = _root(e)
        names = [type(x).__name__ for x in chain]
        if "DispatchError" in names:
            return "skip:no-torchlib-function", str(chain[-1])[:200]
        if not any(n in ("ConversionError", "GraphConstructionError") for n in names):
            return "skip:exporter-error-before-conversion", f"{names}: {str(chain[-1])[:200]}"
        return "e2e-export-fails", f"{names[-1]}: {str(chain[-1])[:300]}"
    mp = prog.model_proto
    feeds = {i.name: a.numpy() for i, a in zip(mp.graph.input, args)}
    from vf.props import c08_helper
    H = c08_helper.helper()
    mb = mp.SerializeToString()
    try:
        r = H.call(("run", mb, feeds))
    except c08_helper.Crashed as e:
        return "e2e-run-fails", f"NATIVE CRASH while running the exported model: {e}"
    if r[0] != "ok":
        if r[3]:
            return "skip:no-runtime-kernel", (r[1] + " | " + r[2])[:200]
        return "e2e-run-fails", ("ort: " + r[1] + " | ref: " + r[2])[:300]
    outs, engine = r[1], r[2]
    est, exp = K.expected_outputs(expected)
    d = runeq.compare(list(outs), exp, loose=4.0)
    if d is None:
        return "ok", engine
    if engine == "ort":
        try:
            r = H.call(("ref", mb, feeds))
        except c08_helper.Crashed:
            r = ("err", "crash")
        if r[0] == "ok":
            dr = runeq.compare(list(r[1]), exp, loose=4.0)
            if dr is None:
                return "skip:ort-differs-reference-agrees-with-torch", d
            d = dr + " [reference evaluator; ORT: " + d + "]"
    return "e2e-" + K.classify_diff(d), d


def _tdesc(t):
    from vf.props import c08_core as K
    from vf.props.c08_min import abstractions
    sh = "(" + ",".join(str(d) for d in t.shape) + ")"
    return f"{K.T()['dtname'].get(t.dtype, str(t.dtype))}{sh}"


def execute(item):
    """One item = one f: f(x) alone for each input dtype, then every g(f(x), y).  A composite that fails is
    re-run as g(a, y) with a = eager f(x) fed as an input: failing the same way there attributes the finding to
    g (key independent of f); composites of an f that fails alone are skipped (they carry no information)."""
    from vf.props import c08_core as K
    t = K.T()
    torch = t["torch"]
    cases = item["cases"]
    outcomes = collections.Counter()
    viols = {}
    nkeys = []
    f_alone = {}
    baseline = {}

    def viol(key, cs, what):
        if key not in viols:
            viols[key] = {"key": key, "detail": {"first_case": cs, "what": what, "n": 0}}
        viols[key]["detail"]["n"] += 1

    ordered = sorted(range(len(cases)), key=lambda i: (cases[i]["g"] != "-", i))
    for i in ordered:
        cs = cases[i]
        x = K.make_value(["T", [2, 3], cs["xdt"], "a"])
        if cs["g"] == "-":
            v, info = run_module(_module(torch, cs["f"], "-"), (x,))
            f_alone[cs["xdt"]] = v
            outcomes["e2e:" + v] += 1
            if v == "ok":
                nkeys.append("e2e|" + json.dumps(cs, sort_keys=True))
            elif not v.startswith("skip:"):
                nkeys.append("e2e|" + json.dumps(cs, sort_keys=True))
                viol(f"C08|{v}|e2e:{cs['f']}|x={cs['xdt']}", cs, info)
            continue
        fa = f_alone.get(cs["xdt"], "ok")
        if fa != "ok":
            outcomes["e2e:skip:f-alone-" + ("refused" if fa.startswith("skip:") else "fails")] += 1
            continue
        y = K.make_value(["T", [2, 3], cs["ydt"], "b"])
        v, info = run_module(_module(torch, cs["f"], cs["g"]), (x, y))
        outcomes["e2e:" + v] += 1
        if v.startswith("skip:"):
            continue
        nkeys.append("e2e|" + json.dumps(cs, sort_keys=True))
        if v == "ok":
            continue
        with torch.no_grad():
            a = F[cs["f"]](torch, x.clone())
        bk = (cs["g"], _tdesc(a), cs["ydt"])
        if bk not in baseline:
            baseline[bk] = run_module(_module(torch, None, cs["g"]), (a.contiguous().clone(), y))[0]
            outcomes["e2e:baseline-g-alone:" + baseline[bk].split(":")[0]] += 1
        if baseline[bk] == v:
            viol(f"C08|{v}|e2e:g={cs['g']}|a={_tdesc(a)},y={cs['ydt']}", cs, info)
        else:
            viol(f"C08|{v}|e2e:{cs['f']}+{cs['g']}|x={cs['xdt']},y={cs['ydt']}", cs,
                 f"g alone on the same operands: {baseline[bk]}; composite: {info}")
    status = "viol" if viols else ("ok" if nkeys else "skip")
    res = {"status": status,
           "outcome": "+".join(sorted({k.split(":")[1] if k.split(":")[1] != "skip" else "skip" for k in outcomes})),
           "nkey": nkeys, "viols": list(viols.values()), "case_outcomes": dict(outcomes),
           "counts": {"extra_evaluations": len(cases) - 1, "e2e_exports_compared": len(nkeys),
                      "cases_failed": sum(v["detail"]["n"] for v in viols.values())},
           "show": f"{item['op']}: {len(cases)} modules, {dict(outcomes)}"}
    if status == "skip":
        res["skip"] = "all-cases-skipped:" + "+".join(sorted(outcomes))
    return res
