"""Standalone reproductions (public API only) of the C13 findings D1..D18: /venv/bin/python vf/props/c13_repro.py"""
import linecache, sys, types, warnings
import numpy as np, onnx
from onnx import TensorProto as TP, helper as oh, numpy_helper as nh
import onnxruntime as ort
import onnxscript
from onnxscript import FLOAT, INT64, BOOL, script, proto2python
from onnxscript import opset18 as op
warnings.simplefilter("ignore")
_n = [0]
def load(src, name):
    _n[0] += 1
    fname = f"<repro{_n[0]}>"
    linecache.cache[fname] = (len(src), None, src.splitlines(True), fname)
    mod = types.ModuleType(f"repro{_n[0]}"); sys.modules[mod.__name__] = mod
    exec(compile(src, fname, "exec"), mod.__dict__)
    return getattr(mod, name)
def run(m, **feeds):
    return ort.InferenceSession(m.SerializeToString(), providers=["CPUExecutionProvider"]).run(None, feeds)
def attempt(title, f):
    try:
        print(f"[{title}] ->", f())
    except Exception as e:
        print(f"[{title}] -> {type(e).__name__}: {str(e).splitlines()[0][:150]}")
vi = oh.make_tensor_value_info
def mk(nodes, ins, outs, inits=(), name="g", value_info=()):
    return oh.make_model(oh.make_graph(nodes, name, ins, outs, initializer=list(inits), value_info=list(value_info)),
                         opset_imports=[oh.make_opsetid("", 18)], ir_version=8)
X2 = vi("x", TP.FLOAT, [2]); Y2 = vi("y", TP.FLOAT, [2])
x = np.array([2, 3], np.float32)

# D1 skip_initializers without a large initializer: not valid Python
m = mk([oh.make_node("Neg", ["x"], ["y"])], [X2], [Y2])
attempt("D1 skip_initializers, no large initializer", lambda: load(proto2python(m, skip_initializers=True), "g"))
# D2 rename: graph inputs keep their names in the signature, body uses v<k>
attempt("D2 rename", lambda: load(proto2python(m, rename=True), "g"))
# D3 for loop in the main graph (the documented round trip of a script function with a for loop)
@script(default_opset=op)
def loop1(X: FLOAT[3], N: INT64) -> FLOAT[3]:
    Sum = op.Identity(X)
    for i in range(N):
        Sum = op.Add(Sum, X)
    return Sum
attempt("D3 for-loop in main graph", lambda: proto2python(loop1.to_model_proto()))
# D4 loop with trip count and condition (script for+break)
@script(default_opset=op)
def brk(X: FLOAT[3], N: INT64) -> FLOAT[3]:
    s = op.Identity(X)
    for i in range(N):
        s = op.Add(s, s)
        c = op.ReduceSum(s, keepdims=0) > 50.0
        if c:
            break
    return s
attempt("D4 for+break function", lambda: load(proto2python(brk.to_function_proto()), "brk"))
# D5 model-local functions are dropped
@script(default_opset=op)
def sq(X, Y):
    d = op.Sub(X, Y)
    return op.Mul(d, d)
@script(default_opset=op)
def caller(X: FLOAT[3], Y: FLOAT[3]) -> FLOAT[3]:
    return op.Add(sq(X, Y), X)
def d5():
    back = load(proto2python(caller.to_model_proto()), "caller").to_model_proto()
    return f"functions in original {len(caller.to_model_proto().functions)}, after round trip {len(back.functions)}"
attempt("D5 model-local function", d5)
# D6 attribute default
@script(default_opset=op)
def lrelu(X, alpha: float = 0.25):
    return op.LeakyRelu(X, alpha=alpha)
attempt("D6 attribute parameter with default", lambda: load(proto2python(lrelu.to_function_proto()), "lrelu"))
# D7 list attribute
@script(default_opset=op)
def tr(X, perm: list[int]):
    return op.Transpose(X, perm=perm)
attempt("D7 list attribute parameter", lambda: load(proto2python(tr.to_function_proto()), "tr"))
# D8 use_operators leaves no opset call
m8 = mk([oh.make_node("Add", ["x", "x"], ["y"])], [X2], [Y2])
attempt("D8 use_operators, only operators", lambda: load(proto2python(m8, use_operators=True), "g"))
# D9 inline_const: constant that is a graph output / branch output / loop initial value
m9 = mk([oh.make_node("Constant", [], ["c"], value=nh.from_array(np.array(2.5, np.float32))), oh.make_node("Neg", ["x"], ["y"])],
        [X2], [Y2, vi("c", TP.FLOAT, [])])
attempt("D9 inline_const, constant is an output", lambda: load(proto2python(m9, inline_const=True), "g"))
# D10 inline_const nan
m10 = mk([oh.make_node("Constant", [], ["c"], value=nh.from_array(np.array(np.nan, np.float32))), oh.make_node("Add", ["x", "c"], ["y"])], [X2], [Y2])
attempt("D10 inline_const nan", lambda: load(proto2python(m10, inline_const=True), "g"))
# D11 precedence: (-1) ** x
m11 = mk([oh.make_node("Constant", [], ["c"], value=nh.from_array(np.array(-1.0, np.float32))), oh.make_node("Pow", ["c", "x"], ["p"]),
          oh.make_node("Identity", ["p"], ["y"])], [X2], [Y2])
def d11():
    src = proto2python(m11, inline_const=True, use_operators=True)
    back = load(src, "g").to_model_proto()
    return f"{[l for l in src.splitlines() if '**' in l]} original {run(m11, x=x)[0]} round-tripped {run(back, x=x)[0]}"
attempt("D11 use_operators+inline_const negative base", d11)
# D12 names that collide after clean-up
m12 = mk([oh.make_node("Neg", ["x"], ["a.b"]), oh.make_node("Abs", ["x"], ["a_b"]), oh.make_node("Sub", ["a.b", "a_b"], ["y"])], [X2], [Y2])
def d12():
    back = load(proto2python(m12), "g").to_model_proto()
    return f"original {run(m12, x=x)[0]} round-tripped {run(back, x=x)[0]}"
attempt("D12 a.b / a_b", d12)
# D13 a value named like the opset variable (silent variant: the If condition input is called opset18)
@script(default_opset=op)
def ifelse(X: FLOAT[3], c: BOOL) -> FLOAT[3]:
    if c:
        Y = op.Add(X, X)
    else:
        Y = op.Mul(X, 3.0)
    return Y
m13 = ifelse.to_model_proto()
m13.graph.input[1].name = "opset18"
m13.graph.node[0].input[0] = "opset18"
def d13():
    back = load(proto2python(m13, use_operators=True), "ifelse").to_model_proto()
    X = np.array([1, -2, 3], np.float32); f = np.array(False)
    return f"cond=False: original {run(m13, X=X, opset18=f)[0]} round-tripped {run(back, X=X, opset18=f)[0]}"
attempt("D13 value named opset18", d13)
# D14 input named like an attribute parameter
@script(default_opset=op)
def elu(X, alpha: float):
    return op.Elu(X, alpha=alpha)
fp = elu.to_function_proto(); fp.input[0] = "alpha"; fp.node[0].input[0] = "alpha"
attempt("D14 input named like attribute parameter", lambda: load(proto2python(fp), "elu"))
# D15 small initializer whose name needs clean-up, inline_const
m15 = mk([oh.make_node("Add", ["x", "0"], ["y"])], [X2], [Y2], inits=[nh.from_array(np.array([1, 2], np.float32), name="0")])
attempt("D15 initializer '0' + inline_const", lambda: load(proto2python(m15, inline_const=True), "g"))
# D16 value_info type not imported
big = nh.from_array(np.arange(6, dtype=np.float32).reshape(3, 2), name="w")
m16 = mk([oh.make_node("Mul", ["x", "w"], ["t"]), oh.make_node("Shape", ["t"], ["s"]), oh.make_node("Cast", ["s"], ["y"], to=TP.FLOAT)],
         [X2], [Y2], inits=[big], value_info=[vi("s", TP.INT64, [2])])
attempt("D16 skip_initializers + value_info", lambda: load(proto2python(m16, skip_initializers=True), "make_model"))
# D17 large INT64 initializer
m17 = mk([oh.make_node("Add", ["n", "w"], ["y"])], [vi("n", TP.INT64, [6])], [vi("y", TP.INT64, [6])],
         inits=[nh.from_array(np.arange(6, dtype=np.int64), name="w")])
attempt("D17 skip_initializers + INT64 initializer", lambda: proto2python(m17, skip_initializers=True))
# D18 loop body exchanging its carried values
body = oh.make_graph([oh.make_node("Add", ["k", "one"], ["k2"]), oh.make_node("Less", ["k2", "n"], ["cout"])], "b",
                     [vi("i", TP.INT64, []), vi("cin", TP.BOOL, []), vi("p", TP.FLOAT, [2]), vi("q", TP.FLOAT, [2]), vi("k", TP.INT64, [])],
                     [vi("cout", TP.BOOL, []), vi("q", TP.FLOAT, [2]), vi("p", TP.FLOAT, [2]), vi("k2", TP.INT64, [])])
m18 = mk([oh.make_node("Constant", [], ["one"], value=nh.from_array(np.array(1, np.int64))),
          oh.make_node("Constant", [], ["zero"], value=nh.from_array(np.array(0, np.int64))),
          oh.make_node("Greater", ["n", "zero"], ["c0"]),
          oh.make_node("Loop", ["", "c0", "x", "z", "zero"], ["y0", "w0", "cnt"], body=body),
          oh.make_node("Neg", ["y0"], ["y"]), oh.make_node("Neg", ["w0"], ["w"])],
         [X2, vi("z", TP.FLOAT, [2]), vi("n", TP.INT64, [])], [Y2, vi("w", TP.FLOAT, [2])])
def d18():
    back = load(proto2python(m18), "g").to_model_proto()
    fd = dict(x=x, z=np.array([7, 8], np.float32), n=np.array(1, np.int64))
    return f"one iteration: original {run(m18, **fd)} round-tripped {run(back, **fd)}"
attempt("D18 loop swap", d18)
