# K9: Sequential[1:] returns a ModuleList renumbered from 0; torch returns a Sequential that keeps the keys
import torch, onnx_ir as ir
from onnxscript.nn import Module, Parameter, Sequential
class Leaf(Module):
    def __init__(self):
        super().__init__(); self.w = Parameter([1])
    def forward(self, op, x): return op.Add(x, self.w)
class M(Module):
    def __init__(self):
        super().__init__("root"); self.tail = Sequential(Leaf(), Leaf(), Leaf())[1:]
class TL(torch.nn.Module):
    def __init__(self):
        super().__init__(); self.w = torch.nn.Parameter(torch.zeros(1))
class TM(torch.nn.Module):
    def __init__(self):
        super().__init__(); self.tail = torch.nn.Sequential(TL(), TL(), TL())[1:]
print("onnxscript", type(M().tail).__name__, list(M().state_dict()))
print("torch     ", type(TM().tail).__name__, list(TM().state_dict()))
