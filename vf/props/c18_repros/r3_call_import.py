# K3: op.call() registers the function but the graph never imports its domain -> invalid model
import onnx, onnx_ir as ir, onnxscript
from onnxscript import script, opset23 as op23
@script(default_opset=op23)
def twice(X):
    return op23.Add(X, X)
g = ir.Graph(name="m", inputs=[], outputs=[], nodes=[], opset_imports={"": 23})
b = onnxscript.GraphBuilder(g); op = b.op
x = b.input("x", ir.DataType.FLOAT, [2])
y = op.call(twice, x)
y.type = ir.TensorType(ir.DataType.FLOAT); y.shape = ir.Shape([2])
g.outputs.append(y)
m = ir.serde.serialize_model(ir.Model(g, ir_version=10, functions=list(b.functions.values())))
print(dict(g.opset_imports))
try:
    onnx.checker.check_model(m); print("valid")
except Exception as e:
    print("checker:", str(e).splitlines()[0])
