# K5: value names inside a subgraph restart at <Op>_0 and redefine (here: self-reference) the outer value of that name
import onnx, onnx_ir as ir, onnxscript
g = ir.Graph(name="m", inputs=[], outputs=[], nodes=[], opset_imports={"": 23})
b = onnxscript.GraphBuilder(g); op = b.op
x = b.input("x", ir.DataType.FLOAT, [2]); c = b.input("c", ir.DataType.BOOL, [])
a = op.Add(x, 1.0)                                  # v_Add_0
then_ = b.subgraph(lambda op: op.Mul(op.Add(a, 2.0), x), [], [ir.Value(name="t")], name="then")   # inner v_Add_0
else_ = b.subgraph(lambda op: op.Neg(a), [], [ir.Value(name="e")], name="else")
r = op.If(c, then_branch=then_, else_branch=else_)
g.outputs.append(r)
m = ir.serde.serialize_model(ir.Model(g, ir_version=10))
print(onnx.printer.to_text(m.graph.node[1].attribute[1].g))
try:
    onnx.checker.check_model(m); print("valid")
except Exception as e:
    print("checker:", str(e).splitlines()[0])
