# K8: a module instance used under two parents
import onnx_ir as ir, onnxscript
from onnxscript.nn import Module, ModuleList, Parameter, Sequential
class Leaf(Module):
    def __init__(self, v):
        super().__init__(); self.w = Parameter([1], data=ir.tensor([float(v)]))
    def forward(self, op, x): return op.Add(x, self.w)
class M1(Module):
    def __init__(self):
        super().__init__("root"); leaf = Leaf(1); self.a = leaf; self.b = Sequential(leaf)
    def forward(self, op, x): return self.b(op, self.a(op, x))
class M2(Module):
    def __init__(self):
        super().__init__("root"); l0, l1 = Leaf(1), Leaf(2); self.a = Sequential(l0, l1); self.b = Sequential(l1)
    def forward(self, op, x): return self.b(op, self.a(op, x))
for M in (M1, M2):
    g = ir.Graph(name="m", inputs=[], outputs=[], nodes=[], opset_imports={"": 23})
    b = onnxscript.GraphBuilder(g); x = b.input("x", ir.DataType.FLOAT, [1])
    m = M(); m(b.op, x)
    print(M.__name__, "state_dict:", list(m.state_dict()), "initializers:", list(g.initializers))
# M1: initializers ['root.0.w']  - neither root.a.w nor root.b.0.w
# M2: initializers ['root.a.0.w'] - two different parameters collided on one name, one is lost
