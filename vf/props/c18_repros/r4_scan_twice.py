# K4: the tutorial's cumulative-sum Scan body ("return new_state, new_state"): build_graph renames the value twice
# and lists it twice as a body output; ORT computes garbage
import numpy as np, onnx_ir as ir, onnxruntime as ort, onnxscript
from onnxscript.onnx_types import FLOAT
D, N = 3, 4
g = ir.Graph(name="cumsum_model", inputs=[], outputs=[], nodes=[], opset_imports={"": 23})
init = ir.Value(name="init_state", type=ir.TensorType(ir.DataType.FLOAT), shape=ir.Shape([D]))
seq = ir.Value(name="sequence", type=ir.TensorType(ir.DataType.FLOAT), shape=ir.Shape([N, D]))
g.inputs.extend([init, seq])
b = onnxscript.GraphBuilder(g); op = b.op
def cumsum_body(op, state, x_i):
    new_state = op.Add(state, x_i)
    return new_state, new_state
body = b.subgraph(cumsum_body, inputs=[ir.Value(name="state", type=ir.TensorType(ir.DataType.FLOAT), shape=ir.Shape([D])),
                                       ir.Value(name="x_i", type=ir.TensorType(ir.DataType.FLOAT), shape=ir.Shape([D]))],
                  outputs=[ir.Value(name="new_state", type=ir.TensorType(ir.DataType.FLOAT), shape=ir.Shape([D])),
                           ir.Value(name="scan_out", type=ir.TensorType(ir.DataType.FLOAT), shape=ir.Shape([D]))], name="cumsum_body")
final, partial = op.Scan(init, seq, body=body, num_scan_inputs=1, _outputs=2)
g.outputs.extend([final, partial])
m = ir.serde.serialize_model(ir.Model(g, ir_version=10))
print("body outputs:", [o.name for a in m.graph.node[0].attribute if a.name == "body" for o in a.g.output])
xs = np.arange(N * D, dtype=np.float32).reshape(N, D)
f, p = ort.InferenceSession(m.SerializeToString()).run(None, {"init_state": np.zeros(D, np.float32), "sequence": xs})
print("final  ", f, "expected", xs.sum(0))
print("partial", p.tolist(), "expected", np.cumsum(xs, 0).tolist())
