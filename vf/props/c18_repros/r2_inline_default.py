# K2: call_inline drops attributes the caller omits instead of using the function's default
import numpy as np, onnx_ir as ir, onnxruntime as ort, onnxscript
from onnxscript import script, opset23 as op23
@script(default_opset=op23)
def leaky(X, alpha: float = 0.25):
    return op23.LeakyRelu(X, alpha=alpha)
def run(mode):
    g = ir.Graph(name="m", inputs=[], outputs=[], nodes=[], opset_imports={"": 23, "this": 1})
    b = onnxscript.GraphBuilder(g); op = b.op
    x = b.input("x", ir.DataType.FLOAT, [2])
    y = (op.call if mode == "call" else op.call_inline)(leaky, x)
    y.type = ir.TensorType(ir.DataType.FLOAT); y.shape = ir.Shape([2])
    g.outputs.append(y)
    m = ir.serde.serialize_model(ir.Model(g, ir_version=10, functions=list(b.functions.values())))
    return ort.InferenceSession(m.SerializeToString()).run(None, {"x": np.array([-4, 2], np.float32)})[0]
print("call  ", run("call"))      # [-1.  2.]   alpha=0.25 (the function's default)
print("inline", run("inline"))    # [-0.04 2.]  alpha=0.01 (LeakyRelu's own default)
