# K6/K7: explicit _outputs names are not checked against names already in the graph
import onnx, onnx_ir as ir, onnxscript
def build(f):
    g = ir.Graph(name="m", inputs=[], outputs=[], nodes=[], opset_imports={"": 23})
    b = onnxscript.GraphBuilder(g); op = b.op
    x = b.input("x", ir.DataType.FLOAT, [2])
    g.outputs.extend(f(b, op, x))
    m = ir.serde.serialize_model(ir.Model(g, ir_version=10))
    try:
        onnx.checker.check_model(m); return "valid"
    except Exception as e:
        return "checker: " + str(e).splitlines()[0]
print(build(lambda b, op, x: [op.Add(x, x, _outputs=["t"]), op.Mul(x, x, _outputs=["t"])]))           # same name twice
print(build(lambda b, op, x: [op.Add(x, x, _outputs=["Mul_1"]), op.Mul(x, x)]))                     # auto name == explicit name
def scoped(b, op, x):
    p = op.Add(x, x, _outputs=["L.t"]); b.push_module("L"); q = op.Mul(x, x, _outputs=["t"]); b.pop_module(); return [p, q]
print(build(scoped))                                                                                 # "L.t" vs scope L + "t"
