"""C08: native-code sandbox.  onnx shape inference / checker, onnxruntime and the reference evaluator run in a
helper subprocess, so that a native crash on one case (e.g. onnx's SplitToSequence inference dividing by a zero
split size, an ORT abort) is attributed to that case instead of taking the whole batch down.

Protocol: length-prefixed pickles on stdin/stdout.  Requests:
  ("check", model_bytes, exp_ranks)          -> ("ok", inferred_bytes) | ("err", text)
  ("run", model_bytes, feeds)                -> ("ok", outs, engine) | ("err", ort_text, ref_text, no_kernel)
  ("ref", model_bytes, feeds)                -> ("ok", outs) | ("err", text)
"""
from __future__ import annotations

import os
import pickle
import struct
import subprocess
import sys


def _serve():
    import onnx
    import onnx.shape_inference
    from vf import runeq
    inp, out = sys.stdin.buffer, os.fdopen(os.dup(1), "wb")
    # anything a library prints must not corrupt the protocol stream
    os.dup2(2, 1)

    def send(obj):
        b = pickle.dumps(obj, protocol=4)
        out.write(struct.pack("<Q", len(b)))
        out.write(b)
        out.flush()

    while True:
        hdr = inp.read(8)
        if len(hdr) < 8:
            return
        (n,) = struct.unpack("<Q", hdr)
        req = pickle.loads(inp.read(n))
        kind = req[0]
        try:
            if kind == "check":
                mp = onnx.ModelProto()
                mp.ParseFromString(req[1])
                inferred = onnx.shape_inference.infer_shapes(mp, strict_mode=True, data_prop=True)
                missing = [o.name for o in inferred.graph.output if not o.type.HasField("tensor_type")
                           and not o.type.HasField("sequence_type") and not o.type.HasField("optional_type")]
                if missing:
                    send(("err", f"ValueError: output type cannot be inferred: {missing}"))
                    continue
                chk = inferred
                if any(o.type.HasField("tensor_type") and not o.type.tensor_type.HasField("shape")
                       for o in inferred.graph.output):
                    chk = onnx.ModelProto()
                    chk.CopyFrom(inferred)
                    for i, o in enumerate(chk.graph.output):
                        if o.type.HasField("tensor_type") and not o.type.tensor_type.HasField("shape"):
                            rank = req[2][i] if i < len(req[2]) and req[2][i] is not None else 1
                            o.type.tensor_type.shape.SetInParent()
                            for j in range(rank):
                                o.type.tensor_type.shape.dim.add().dim_param = f"o{i}_d{j}"
                onnx.checker.check_model(chk, full_check=True)
                send(("ok", inferred.SerializeToString()))
            elif kind == "run":
                try:
                    send(("ok", runeq.run_ort(req[1], req[2]), "ort"))
                    continue
                except runeq.RunError as e:
                    ort_err = str(e)
                mp = onnx.ModelProto()
                mp.ParseFromString(req[1])
                try:
                    send(("ok", runeq.run_ref(mp, req[2]), "ref"))
                except Exception as e:  # noqa: BLE001
                    nk = "NOT_IMPLEMENTED" in ort_err or "Could not find an implementation" in ort_err
                    send(("err", ort_err[:400], f"{type(e).__name__}: {str(e)[:300]}", nk))
            elif kind == "ref":
                mp = onnx.ModelProto()
                mp.ParseFromString(req[1])
                send(("ok", runeq.run_ref(mp, req[2])))
            else:
                send(("err", f"unknown request {kind}"))
        except Exception as e:  # noqa: BLE001
            send(("err", f"{type(e).__name__}: {str(e)[:400]}"))


class Crashed(Exception):
    def __init__(self, stage, code):
        super().__init__(f"native crash in helper during '{stage}' (exit code {code})")
        self.stage = stage
        self.code = code


class Helper:
    def __init__(self):
        self.p = None

    def _start(self):
        env = dict(os.environ)
        root = os.path.dirname(os.path.dirname(os.path.dirname(os.path.abspath(__file__))))
        env["PYTHONPATH"] = root + os.pathsep + env.get("PYTHONPATH", "")
        self.p = subprocess.Popen([sys.executable, "-W", "ignore", "-m", "vf.props.c08_helper", "--serve"],
                                  stdin=subprocess.PIPE, stdout=subprocess.PIPE, stderr=subprocess.DEVNULL,
                                  env=env, cwd=root)

    def call(self, req):
        if self.p is None or self.p.poll() is not None:
            self._start()
        try:
            b = pickle.dumps(req, protocol=4)
            self.p.stdin.write(struct.pack("<Q", len(b)))
            self.p.stdin.write(b)
            self.p.stdin.flush()
            hdr = self.p.stdout.read(8)
            if len(hdr) < 8:
                raise BrokenPipeError
            (n,) = struct.unpack("<Q", hdr)
            data = self.p.stdout.read(n)
            if len(data) < n:
                raise BrokenPipeError
            return pickle.loads(data)
        except (BrokenPipeError, OSError):
            code = None
            try:
                code = self.p.wait(timeout=5)
            except Exception:  # noqa: BLE001
                self.p.kill()
            self.p = None
            raise Crashed(req[0], code) from None

    def close(self):
        if self.p is not None and self.p.poll() is None:
            try:
                self.p.stdin.close()
                self.p.wait(timeout=5)
            except Exception:  # noqa: BLE001
                self.p.kill()
        self.p = None


_H = None


def helper():
    global _H
    if _H is None:
        import atexit
        _H = Helper()
        atexit.register(_H.close)
    return _H


if __name__ == "__main__":
    if "--serve" in sys.argv:
        _serve()
