"""C14 - results are deterministic across processes and hash seeds and independent of what the process did
before with the same decorator / pass / rule objects.

Explicit-state search on the REAL code (DESIGN 2.2, "### C14"); a state is the event history that reaches it.
The event alphabet, the shared objects and the canonical process state live in ``c14_events.py`` (imported only
inside fresh interpreters); this module plans the search, compares against goldens and reports.

Phases (items):
  seed    one fresh process per (PYTHONHASHSEED of the pool, event): bytes == golden bytes (seed 0)
  family  one fresh process per pool seed translating the set-order script family: bytes == seed-0 bytes
  hist    UNABSTRACTED, fork-free: one fresh process per history of length 2 (covers lengths 0..2);
          every event's output == its golden, every event's own repeat/alternation checks
  tree    (thorough) UNABSTRACTED length 3: one fresh process per length-2 prefix, which then forks one child
          per third event (copy-on-write snapshot of the whole interpreter = the prefix state, untouched by
          siblings); the forking mechanism is cross-checked against an in-process execution in every job
  bfs     state-DEDUPLICATED BFS over canonical process states (shortest history per state rebuilt in a fresh
          process, one forked child per event), to fixpoint / depth bound / state cap
"""
from __future__ import annotations

import atexit
import base64
import collections
import hashlib
import json
import os
import re
import shutil
import tempfile

from vf import explore
from vf import statespace as ss

ID = "C14"
LEVEL = "model_checking"
DRIVER = "vf.props.c14_events"
RULES_DRIVER = "vf.props.c14_rules"

EVENT_NAMES = [
    "tr_s1", "tr_s2", "tr_s3", "tr_x11", "tr_x18", "tr_rescript",
    "opt_reshape2", "opt_reshape_az", "opt_fold_o11", "opt_fold_o18", "opt_padconv", "opt_matreshape", "opt_nearmiss", "opt_mixed",
    "rw_checkraises", "rw_patternraises", "rw_alt", "rw_rms", "fold_reuse", "pass_seq_o11", "pass_seq_o17", "pass_seq_o18",
    "convert", "pass_plain",
    "eager_raise", "use_persist", "proto_repeat", "glob_mut", "use_g",
]
NAMES = ["alpha", "beta", "acc", "run", "p", "q", "r", "tot"]  # variable names the scripts put into sets
MUTATORS = {"glob_mut"}          # events that do nothing but mutate globals referenced by decorated scripts
SPLIT = {"use_g"}                # events whose output name is part of the finding key (kind of global)

TIERS = {
    "quick": dict(set_sizes=[2], hist_depth=2, tree=False, bfs_depth=3, bfs_cap=None, seed_chunk=7),
    "thorough": dict(set_sizes=[2, 3], hist_depth=2, tree=True, bfs_depth=8, bfs_cap=800, seed_chunk=7),
}

RULE = ("events = 29 public-API operations on shared module-level decorator/pass/rule objects (each builds its "
        "input afresh). Enumerated: (seed) every event x every PYTHONHASHSEED of a pool found by search so that "
        "every iteration order of every <=2 (quick) / <=3 (thorough) subset of the scripts' variable names is "
        "realised, one fresh process each; (family) every subset-script x every pool seed; (hist) ALL histories "
        "of length <=2 fork-free, one fresh process per history; (tree, thorough) ALL histories of length 3, one "
        "fresh process per length-2 prefix + one forked child per last event; (bfs) state-deduplicated BFS, key = "
        "sorted dump of rule-instance vars / Opset.cache / builder+evaluator defaults / registries / pass state / "
        "globals, depth 3 (quick) / 8 or cap (thorough). Oracle: bytes == golden bytes of the event alone in a "
        "fresh process. distinct_nontrivial = distinct (history, target) pairs + distinct (canonical state, "
        "event) pairs + distinct (seed, event|script) pairs compared against a golden; "
        "(rules) for EVERY shipped rewrite-rule object (108, as discovered by C05) EVERY instance of its C05 "
        "rule space with at most one deviation in a rule-specific dimension (51k host models) is rewritten by the shared "
        "object after whole-space histories: one chain per rotation of the space's dimension list (quick: at most 4 "
        "rotations) x {forward, backward} (an instance is preceded by its neighbour along the rotated dimensions), each "
        "chain in one forked process, compared with goldens computed in children forked from a "
        "pristine parent; (cross) every ordered pair (A, B) of first-firing instances of different rules; "
        "(fusions) the same chain exploration for the ORT-fusion rule objects: per C19 fusion family every configuration "
        "of its plan (quick: 3.3k models) built and fused by the family's single-fusion functions after whole-family "
        "histories (quick: enumeration order forward and backward; thorough: also with the first dimensions varying fastest), against fork-fresh goldens")
ASSUMPTIONS = [
    "the golden of an event is its output as the first event of a fresh interpreter under PYTHONHASHSEED=0",
    "fork() gives a child an exact copy of the interpreter state (tree/bfs phases: cross-checked per job "
    "against an in-process execution; rules/cross/fusions phases: goldens and chains both run in children forked from a "
    "parent that never applies a rule; the hist phase does not fork)",
    "the canonical key observes Python-level state only; C-level caches of onnx/onnxruntime are outside",
    "seed-pool coverage of set orders is computed on list(set(names)) in a bare interpreter of the same binary",
]

_PLAN = {}
_TIER = {"tier": "quick"}


# ---------------------------------------------------------------------------------------------------------
# goldens
# ---------------------------------------------------------------------------------------------------------

def _golden_one(ev):
    r = ss.run_job(DRIVER, {"mode": "linear", "history": [ev], "bytes": True}, hashseed=0)
    st = r["steps"][0]
    return dict(status=st["status"], outs=st["outs"], bytes=st.get("bytes", {}), within=st["within"],
                key=st["key"], key0=r["key0"], err=st.get("err"), impl=r.get("onnxscript"), tree=r.get("tree"))


def _compute_goldens(sizes, par):
    jobs = [("ev", e) for e in EVENT_NAMES] + [("fam", None)]

    def run(j):
        if j[0] == "ev":
            return _golden_one(j[1])
        return ss.run_job(DRIVER, {"mode": "family", "sizes": sizes}, hashseed=0)["family"]

    res = ss.pmap(run, jobs, par)
    gold = {"events": {e: r for (k, e), r in zip(jobs, res) if k == "ev"}, "family": res[-1], "sizes": sizes}
    trees = sorted({g.get("tree") for g in gold["events"].values()})
    if len(trees) != 1:
        raise TreeChanged("onnxscript source files changed while the goldens were computed: rerun")
    gold["tree"] = trees[0]
    return gold


_GOLD_CACHE = {}


class TreeChanged(RuntimeError):
    pass


def _job(gold, job, hashseed=0):
    """run a driver job; refuse to conclude anything when the onnxscript sources are not the ones the goldens saw"""
    r = ss.run_job(DRIVER, job, hashseed=hashseed, timeout=3600 if job.get("mode") == "expand" else 1200)
    want = gold.get("tree")
    if want and r.get("tree") and r["tree"] != want:
        raise TreeChanged("onnxscript source files changed while C14 was running (goldens are stale): rerun")
    return r


def _gold(item):
    path = item.get("gold")
    if path in _GOLD_CACHE:
        return _GOLD_CACHE[path]
    if path and os.path.exists(path):
        with open(path) as f:
            g = json.load(f)
    else:  # replay long after the run: recompute (one fresh process per golden)
        g = _compute_goldens(item.get("sizes") or TIERS[_TIER["tier"]]["set_sizes"], 4)
    _GOLD_CACHE[path] = g
    return g


# ---------------------------------------------------------------------------------------------------------
# plan
# ---------------------------------------------------------------------------------------------------------

def plan(tier, seed):
    cfg = TIERS[tier]
    par = ss.jobs_hint()
    pool = ss.seed_pool(NAMES, cfg["set_sizes"], par=par)
    gold = _compute_goldens(cfg["set_sizes"], par)
    tmp = tempfile.mkdtemp(prefix="vf_c14_")
    atexit.register(shutil.rmtree, tmp, True)
    gpath = os.path.join(tmp, "gold.json")
    with open(gpath, "w") as f:
        json.dump(gold, f)
    chunk = cfg["seed_chunk"]
    ev_chunks = [EVENT_NAMES[i:i + chunk] for i in range(0, len(EVENT_NAMES), chunk)]
    # long single jobs (bfs, a whole fusion family, a whole rule space) first, so that they overlap with the many short ones
    phases = ["bfs", "fusions", "rules", "cross", "seed", "family", "hist"] + (["tree"] if cfg["tree"] else [])
    listing = ss.run_job(RULES_DRIVER, {"mode": "list", "tier": tier})
    rule_ids = listing["rules"]
    fusion_fams = listing["fusion_families"]
    nblk = 16
    blocks = [list(range(i, len(rule_ids), nblk)) for i in range(nblk)]
    if os.environ.get("C14_PHASES"):  # development aid only
        phases = [p for p in phases if p in os.environ["C14_PHASES"].split(",")]

    def driver(ch):
        ph = ch.all("phase", phases)
        base = {"kind": ph, "gold": gpath, "sizes": cfg["set_sizes"]}
        if ph == "bfs":
            # histories up to this length are also enumerated one by one by the hist/tree phases; a divergence
            # whose minimal history fits is reported there (cheap replay), the BFS only counts it
            covered = 0 if "hist" not in phases else (cfg["hist_depth"] + (1 if "tree" in phases else 0))
            base.update(depth=cfg["bfs_depth"], cap=cfg["bfs_cap"], par=max(2, par // 2), covered_len=covered)
        elif ph == "seed":
            base["seed"] = ch.all("hashseed", pool["pool"])
            base["events"] = ch.all("events", ev_chunks)
        elif ph == "family":
            base["seed"] = ch.all("hashseed", pool["pool"])
        elif ph in ("hist", "tree"):
            base["h"] = [ch.all(f"e{i + 1}", EVENT_NAMES) for i in range(cfg["hist_depth"])]
        elif ph == "rules":
            base["rule"] = ch.all("rule", rule_ids)
            base["tier"] = tier
        elif ph == "cross":
            base["block"] = ch.all("block", blocks)
            base["tier"] = tier
        elif ph == "fusions":
            base["family"] = ch.all("fusion_family", fusion_fams)
            base["tier"] = tier
        return base

    st = explore.Stats()
    items = [case for _, case in explore.explore(driver, bound=0, stats=st)]
    d = st.as_dict()
    d["exhaustive"] = True
    d["dimensions"] = {k: len(v) for k, v in st.dim_hist.items()}
    _PLAN.update(pool=pool, gold=gold, cfg=cfg, tier=tier, plan_tree=dict(states=st.states, transitions=st.transitions))
    d["golden_runs"] = len(EVENT_NAMES) + 1
    _PLAN["n_items"] = len(items) if not os.environ.get("C14_PHASES") else -1
    return items, d


def worker_init(arg):
    if arg:
        _TIER["tier"] = arg.get("tier", "quick")


# ---------------------------------------------------------------------------------------------------------
# comparison, classification, attribution
# ---------------------------------------------------------------------------------------------------------

def _diff(step, g):
    """names of the outputs of this execution that differ from the golden ('<status>' for ok/raise mismatch)"""
    if step["status"] != g["status"]:
        return ["<status>"]
    names = sorted(set(step["outs"]) | set(g["outs"]))
    return [n for n in names if step["outs"].get(n) != g["outs"].get(n)]


def _base(name):
    return re.sub(r"_\d+$", "", name)


def _nodes_of(b):
    import onnx
    for cls in (onnx.ModelProto, onnx.FunctionProto):
        try:
            m = cls()
            m.ParseFromString(b)
        except Exception:
            continue
        nodes = list(m.graph.node) if cls is onnx.ModelProto else list(m.node)
        if nodes:
            return nodes
    return None


def _walk(nodes):
    import onnx
    for n in nodes:
        yield n
        for a in n.attribute:
            if a.type == onnx.AttributeProto.GRAPH:
                yield from _walk(a.g.node)


def _classify(b0, b1):
    """Which construct carries the difference between two serializations of one script/model: the set of
    {If-outputs, Loop-state} whose variable ORDER differs, else the op type of the first differing node."""
    n0, n1 = _nodes_of(b0), _nodes_of(b1)
    if not n0 or not n1:
        return ["bytes"]
    classes = []
    first = None
    for a, b in zip(_walk(n0), _walk(n1)):
        if a.op_type != b.op_type:
            first = first or f"node:{a.op_type}/{b.op_type}"
            break
        if a.op_type in ("If", "Loop"):
            oa, ob = [_base(x) for x in a.output], [_base(x) for x in b.output]
            if oa != ob and sorted(oa) == sorted(ob):
                c = "If-outputs" if a.op_type == "If" else "Loop-state"
                if c not in classes:
                    classes.append(c)
        if first is None and a.SerializeToString() != b.SerializeToString():
            first = f"node:{a.op_type}"
    return sorted(classes) or [first or "bytes"]


def _orders(b):
    """observed variable order of every If / Loop node (for the coverage report)"""
    nodes = _nodes_of(b)
    out = []
    for n in _walk(nodes or []):
        if n.op_type in ("If", "Loop"):
            out.append(n.op_type + ":" + ",".join(_base(x) for x in n.output))
    return out


class _Attributor:
    """minimal history for a diverging target; fresh linear runs, cached per instance"""

    def __init__(self, gold, memo=None):
        self.gold = gold
        self.runs = {}
        self.n_runs = 0
        self.memo = memo  # (ev, cls) -> [minimal histories]; only used where the processing order is fixed

    def _last(self, hist):
        k = tuple(hist)
        if k not in self.runs:
            self.n_runs += 1
            self.runs[k] = _job(self.gold, {"mode": "linear", "history": list(hist)})["steps"][-1]
        return self.runs[k]

    def minimal(self, prefix, ev, cls):
        if self.memo is not None:
            for m in self.memo.get((ev, cls), []):
                it = iter(prefix)
                if all(x in it for x in m):
                    return m
        g = self.gold["events"][ev]

        def still(cand):
            d = _diff(self._last(list(cand) + [ev]), g)
            return cls in [_cls(ev, n) for n in d]

        m = ss.minimise(prefix, still)
        if self.memo is not None and m:
            self.memo.setdefault((ev, cls), []).append(m)
        return m


def _cls(ev, name):
    if ev in SPLIT:
        return name
    return "out" if name != "<status>" else "status"


def _viols_for_step(prefix, step, gold, attr, where):
    """violations of one executed event (after history `prefix`)"""
    ev = step["ev"]
    viols = []
    for w in step.get("within", []):
        kind = w["kind"]
        viols.append({"key": f"C14|{kind}|{ev}|{w['what']}", "detail": {"history": prefix, "where": where}})
    if step["status"] == "crash":
        viols.append({"key": f"C14|history|{ev}|crash", "detail": {"history": prefix, "where": where}})
        return viols
    d = _diff(step, gold["events"][ev])
    seen = set()
    for name in d:
        c = _cls(ev, name)
        if c in seen:
            continue
        seen.add(c)
        if not prefix:
            m, kind, hs = [], "history", "fresh-process"
        else:
            m = attr.minimal(prefix, ev, c)
            kind = "global-mutation" if m and set(m) <= MUTATORS else "history"
            hs = ">".join(m) if m else "fresh-process"
        target = f"{ev}/{c}" if ev in SPLIT else (ev if c == "out" else f"{ev}/status")
        viols.append({"key": f"C14|{kind}|{target}|{hs}",
                      "detail": {"history": prefix, "minimal": m, "differs": [n for n in d if _cls(ev, n) == c],
                                 "status": step["status"], "golden_status": gold["events"][ev]["status"],
                                 "where": where}})
    return viols


def _check_inproc(res, verify, hist):
    ip = res.get("inproc")
    if not ip:
        return
    ch = res["children"][verify]
    if (ip["status"], ip["outs"], ip["key"]) != (ch["status"], ch["outs"], ch["key"]):
        raise RuntimeError(f"fork fidelity: event {verify} after {hist} gives {ip['status']}/{ip['key']} in-process "
                           f"but {ch['status']}/{ch['key']} in a forked child")


def _refork(gold, hist, res):
    """a forked child that did not answer in time is a harness failure, not an outcome: execute that one
    transition in a fresh process instead (history replayed linearly, no fork)"""
    n = 0
    for ev, ch in list(res["children"].items()):
        if ch.get("status") == "fork-timeout":
            step = _job(gold, {"mode": "linear", "history": list(hist) + [ev]})["steps"][-1]
            step["changed"] = []
            res["children"][ev] = step
            n += 1
    return n


def _verify_event(hist):
    return EVENT_NAMES[(7 * len(hist) + sum(EVENT_NAMES.index(e) for e in hist)) % len(EVENT_NAMES)]


# ---------------------------------------------------------------------------------------------------------
# execute
# ---------------------------------------------------------------------------------------------------------

def execute(item):
    return {"bfs": _ex_bfs, "seed": _ex_seed, "family": _ex_family, "hist": _ex_hist, "tree": _ex_tree,
            "rules": _ex_rules, "cross": _ex_cross, "fusions": _ex_rules}[item["kind"]](item)


def _rules_job(gold, job):
    r = ss.run_job(RULES_DRIVER, job, hashseed=0, timeout=3600)
    want = gold.get("tree")
    if want and r.get("tree") and r["tree"] != want:
        raise TreeChanged("onnxscript source files changed while C14 was running (goldens are stale): rerun")
    return r


def _ex_rules(item):
    """one shipped rule object: every bound-0 instance of its C05 space after 2 x D whole-space histories"""
    gold = _gold(item)
    if item["kind"] == "fusions":
        item = dict(item, rule="fusion:" + item["family"])
        res = _rules_job(gold, {"mode": "fusion", "family": item["family"], "tier": item.get("tier", "quick")})
    else:
        res = _rules_job(gold, {"mode": "chain", "rule": item["rule"], "tier": item.get("tier", "quick")})
    if res.get("crashes"):
        raise RuntimeError(f"C14 rules phase: {res['crashes']} forked children of rule {item['rule']} did not answer")
    viols = []
    if res.get("divergences"):
        d0 = res["divergences"][0]
        viols.append({"key": f"C14|rule-state|{item['rule']}", "detail": {
            "what": "rewrite(model, [rule]) on the shared rule object gives other bytes after the history than in a "
                    "pristine process", "first": d0, "diverging_per_order": res["orders"],
            "more": res["divergences"][1:4]}})
    n = res.get("instances", 0)
    nd = sum(o.get("diverging", 0) for o in res.get("orders", []))
    return _finish(viols, outcome=f"rules:{'diverges' if viols else ('identical' if n else 'no-instance')}",
                   nkey=[f"r:{item['rule']}:{k}" for k in range(n)], nontrivial=bool(n),
                   counts={"events_executed": res.get("applications", 0) + n,
                           "extra_evaluations": max(0, res.get("applications", 0) + n - 1),
                           "rule_instances": n, "rule_orders": len(res.get("orders", [])),
                           "rule_applications_after_history": res.get("applications", 0),
                           "rule_forks": res.get("forks", 0), "rule_diverging_applications": nd,
                           "rule_distinct_goldens": res.get("golden_distinct", 0)},
                   show=f"{item['rule']}: {n} instances x {len(res.get('orders', []))} orders, "
                        f"{res.get('golden_distinct', 0)} distinct results, {nd} diverging")


def _ex_cross(item):
    """ordered pairs (A, B) of first-firing instances of different rules: A, then B in a forked grandchild"""
    gold = _gold(item)
    res = _rules_job(gold, {"mode": "cross", "block": item["block"], "tier": item.get("tier", "quick")})
    if res.get("crashes"):
        raise RuntimeError(f"C14 cross phase: {res['crashes']} forked children did not answer")
    viols = []
    for d in res.get("divergences", []):
        key = f"C14|rule-cross|{d['a']}|{d['b']}"
        if key not in [v["key"] for v in viols]:
            viols.append({"key": key, "detail": d})
    np_ = res.get("pairs", 0)
    return _finish(viols, outcome=f"cross:{len(viols)}-diverging-pairs",
                   nkey=[f"x:{a}>{k}" for a in res.get("a", []) for k in range(res.get("rules_with_firing_instance", 0))],
                   nontrivial=bool(np_),
                   counts={"events_executed": np_, "extra_evaluations": max(0, np_ - 1), "cross_pairs": np_,
                           "cross_forks": res.get("forks", 0)},
                   show=f"A in {res.get('a')} x {res.get('rules_with_firing_instance')} B: {np_} ordered pairs")


def _finish(viols, **kw):
    kw["viols"] = viols
    kw["status"] = "viol" if viols else "ok"
    return kw


def _ex_hist(item):
    gold = _gold(item)
    h = item["h"]
    res = _job(gold, {"mode": "linear", "history": h})
    attr = _Attributor(gold)
    viols = []
    outc = []
    for i, step in enumerate(res["steps"]):
        v = _viols_for_step(h[:i], step, gold, attr, "hist")
        viols += v
        outc.append(step["status"].split(":")[0] + ("!" if v else ""))
    return _finish(viols, outcome="hist:" + ",".join(outc),
                   nkey=["h:" + ">".join(h[:i + 1]) for i in range(len(h))],
                   keys=[res["key0"]] + [s["key"] for s in res["steps"]],
                   counts={"events_executed": len(h), "extra_evaluations": len(h) - 1,
                           "hist_processes": 1, "minimisation_runs": attr.n_runs},
                   show=" > ".join(f"{s['ev']}[{s['status']}]" for s in res["steps"]))


def _ex_tree(item):
    gold = _gold(item)
    h = item["h"]
    verify = _verify_event(h)
    res = _job(gold, {"mode": "expand", "history": h, "events": EVENT_NAMES, "verify": verify})
    fallbacks = _refork(gold, h, res)
    _check_inproc(res, verify, h)
    attr = _Attributor(gold)
    viols = []
    nviol_children = 0
    for i, step in enumerate(res["steps"]):
        viols += _viols_for_step(h[:i], step, gold, attr, "tree-prefix")
    keys = [s["key"] for s in res["steps"]] + [res["root_key"]]
    for ev in EVENT_NAMES:
        ch = res["children"][ev]
        v = _viols_for_step(h, ch, gold, attr, "tree")
        nviol_children += bool(v)
        viols += v
        if ch.get("key"):
            keys.append(ch["key"])
    n = len(h) + len(EVENT_NAMES) + 1
    return _finish(viols, outcome=f"tree:{nviol_children}-diverging-children",
                   nkey=["h:" + ">".join(h + [ev]) for ev in EVENT_NAMES], keys=keys,
                   counts={"events_executed": n, "extra_evaluations": n - 1, "tree_processes": 1,
                           "forked_children": len(EVENT_NAMES), "fork_crosschecks": 1, "fork_fallbacks": fallbacks,
                           "minimisation_runs": attr.n_runs},
                   show=" > ".join(h) + " > *")


def _ex_seed(item):
    gold = _gold(item)
    s = item["seed"]
    viols = []
    nk = []
    ndiff = 0
    for ev in item["events"]:
        r = _job(gold, {"mode": "linear", "history": [ev], "bytes": True}, hashseed=s)
        step = r["steps"][0]
        g = gold["events"][ev]
        nk.append(f"s:{s}:{ev}")
        for w in step.get("within", []):
            viols.append({"key": f"C14|{w['kind']}|{ev}|{w['what']}", "detail": {"hashseed": s}})
        d = _diff(step, g)
        if not d:
            continue
        ndiff += 1
        kind = "hashseed" if s != 0 else "history"
        for name in d:
            if name == "<status>":
                classes = [f"status:{g['status']}/{step['status']}"]
            else:
                b0 = base64.b64decode(g["bytes"].get(name, ""))
                b1 = base64.b64decode(step["bytes"].get(name, ""))
                classes = _classify(b0, b1)
            for c in classes:
                key = f"C14|{kind}|{ev}|{c if s != 0 else 'fresh-process'}"
                if key not in [v["key"] for v in viols]:
                    viols.append({"key": key, "detail": {"hashseed": s, "output": name, "golden_seed": 0}})
    return _finish(viols, outcome=f"seed:{ndiff}-of-{len(item['events'])}-differ", nkey=nk,
                   counts={"events_executed": len(item["events"]), "extra_evaluations": len(item["events"]) - 1,
                           "seed_processes": len(item["events"])},
                   show=f"PYTHONHASHSEED={s}: " + ",".join(item["events"]))


def _ex_family(item):
    gold = _gold(item)
    s = item["seed"]
    fam = _job(gold, {"mode": "family", "sizes": item["sizes"]}, hashseed=s)["family"]
    viols = []
    orders = []
    ndiff = 0
    refused = 0
    for name in sorted(gold["family"]):
        a, b = gold["family"][name], fam.get(name)
        if isinstance(b, str) and b.startswith("raise:") or b is None:
            refused += 1
            if a != b:
                viols.append({"key": "C14|hashseed|tr_family|status", "detail": {"hashseed": s, "script": name}})
            continue
        bb = base64.b64decode(b)
        orders += [f"{name}:{o}" for o in _orders(bb)]
        if a == b:
            continue
        ndiff += 1
        for c in _classify(base64.b64decode(a), bb):
            key = f"C14|{'hashseed' if s != 0 else 'history'}|tr_family|{c if s != 0 else 'fresh-process'}"
            if key not in [v["key"] for v in viols]:
                viols.append({"key": key, "detail": {"hashseed": s, "script": name, "golden_seed": 0}})
    n = len(gold["family"])
    return _finish(viols, outcome=f"family:{'differs' if ndiff else 'identical'}",
                   nkey=[f"f:{s}:{name}" for name in sorted(gold["family"])], orders=orders,
                   counts={"events_executed": n, "extra_evaluations": n - 1, "family_scripts": n,
                           "family_scripts_differing": ndiff, "family_refused": refused, "seed_processes": 1},
                   show=f"PYTHONHASHSEED={s}: {n} subset scripts, {ndiff} differ from seed 0")


def _ex_bfs(item):
    gold = _gold(item)
    memo = {}
    attr = _Attributor(gold, memo)
    viols = []
    changed = collections.defaultdict(collections.Counter)
    outcomes = collections.Counter()
    nk = []
    crosschecks = [0]
    fallbacks = [0]
    covered = collections.Counter()

    def expand(h):
        verify = _verify_event(h)
        res = _job(gold, {"mode": "expand", "history": h, "events": EVENT_NAMES, "verify": verify})
        fallbacks[0] += _refork(gold, h, res)
        _check_inproc(res, verify, h)
        crosschecks[0] += 1
        return res

    def on_transition(h, ev, ch, rk):
        nk.append(f"b:{rk}:{ev}")
        for c in ch.get("changed", []):
            changed[ev][c.split(":")[0] if not c.startswith("rule:") else "rule:" + c.rsplit(":", 1)[1]] += 1
        v = _viols_for_step(h, ch, gold, attr, "bfs")
        outcomes[ch["status"].split(":")[0] + ("!" if v else "")] += 1
        for x in v:
            m = x["detail"].get("minimal")
            if m is not None and len(m) + 1 <= item.get("covered_len", 0) and x["key"].split("|")[1] != "repeat":
                covered[x["key"]] += 1
            elif x["key"] not in [y["key"] for y in viols]:
                viols.append(x)

    r = ss.bfs(expand, EVENT_NAMES, max_depth=item["depth"], max_states=item.get("cap"), par=item.get("par", 4),
               on_transition=on_transition)
    longest = max((len(h) for h in r["states"].values()), default=0)
    return _finish(viols, outcome=f"bfs:{'fixpoint' if r['fixpoint'] else 'bounded'}", nkey=nk,
                   keys=sorted(r["states"]), covered_keys=dict(covered),
                   bfs=dict(states=len(r["states"]), transitions=r["transitions"], expansions=r["expansions"],
                            levels=r["levels"], fixpoint=r["fixpoint"], capped=r["capped"],
                            depth_bound=item["depth"], depth_reached=r["depth_reached"],
                            unexpanded_frontier=r["unexpanded"], longest_shortest_history=longest,
                            transition_outcomes=dict(outcomes),
                            diverging_transitions_reported_by_unabstracted_phases=dict(covered),
                            components_changed_by_event={e: dict(c) for e, c in changed.items()},
                            sample_states=[{"key": k, "history": r["states"][k]} for k in sorted(r["states"])[:5]]),
                   counts={"events_executed": r["transitions"] + sum(len(h) for h in r["states"].values()),
                           "extra_evaluations": r["transitions"] - 1, "bfs_transitions": r["transitions"],
                           "bfs_expansions": r["expansions"], "forked_children": r["transitions"],
                           "fork_crosschecks": crosschecks[0], "fork_fallbacks": fallbacks[0],
                           "minimisation_runs": attr.n_runs},
                   show=f"bfs depth<={item['depth']} cap={item.get('cap')}: {len(r['states'])} states, "
                        f"{r['transitions']} transitions, levels {r['levels']}")


# ---------------------------------------------------------------------------------------------------------
# summary
# ---------------------------------------------------------------------------------------------------------

def summarize(items, results, tier):
    keys = set()
    hist = set()
    rule_inst = set()
    trans = 0
    bfs = None
    fam_orders = collections.defaultdict(set)
    for it, r in zip(items, results):
        for k in r.get("keys") or []:
            keys.add(k)
        for nk in r.get("nkey") or []:
            if isinstance(nk, str) and nk.startswith("h:"):
                hist.add(nk)
            elif isinstance(nk, str) and nk[:2] in ("r:", "x:"):
                rule_inst.add(nk)      # (rule object, instance) / ordered rule pair explored by the rules/cross/fusions phases
        trans += int((r.get("counts") or {}).get("events_executed", 0))
        if it.get("kind") == "bfs" and r.get("bfs"):
            bfs = r["bfs"]
        for o in r.get("orders") or []:
            name, rest = o.split(":", 1)
            fam_orders[(name, rest.split(":")[0])].add(rest)
    # a divergence the BFS left to the hist/tree phases must have been reported there
    reported = {v["key"] for r in results for v in (r.get("viols") or [])}
    for it, r in zip(items, results):
        missing = sorted(set(r.get("covered_keys") or {}) - reported)
        if missing and len(items) == _PLAN.get("n_items"):
            raise RuntimeError(f"C14: BFS saw divergences that the unabstracted phases did not report: {missing}")
    pool = _PLAN.get("pool", {})
    gold = _PLAN.get("gold", {"events": {}})
    out = dict(
        states=(len(keys) + len(hist) + len(rule_inst)) or (_PLAN.get("plan_tree") or {}).get("states", 1),
        rule_instances_and_pairs=len(rule_inst),
        transitions=trans or (_PLAN.get("plan_tree") or {}).get("transitions", 1),
        distinct_canonical_states=len(keys),
        distinct_histories=len(hist),
        choice_tree=_PLAN.get("plan_tree"),
        event_alphabet=EVENT_NAMES,
        golden_status={e: g["status"] for e, g in gold["events"].items()},
        golden_outputs={e: len(g["outs"]) for e, g in gold["events"].items()},
        implementation=sorted({g.get("impl") for g in gold["events"].values() if g.get("impl")}),
        seed_pool=pool.get("pool"),
        seed_pool_orders=dict(subsets=pool.get("subsets"), orders_to_realise=pool.get("targets"),
                              orders_realised=pool.get("orders_realised"),
                              candidate_seeds_probed=pool.get("candidates_probed")),
        family_orders_observed=dict(
            constructs=len(fam_orders), distinct_orders=sum(len(v) for v in fam_orders.values()),
            max_orders_per_construct=max((len(v) for v in fam_orders.values()), default=0)),
        bfs=bfs,
    )
    if bfs is not None and not bfs["fixpoint"]:
        out["exhaustive"] = not bfs["capped"]
        out["bfs_note"] = ("BFS stopped at the depth bound, not at a fixpoint" if not bfs["capped"] else
                           "BFS hit the state cap before the depth bound: deeper states were not expanded")
    return out
