"""C05 helper: rule discovery from the live modules, rule application, the fired => equivalent oracle."""
from __future__ import annotations

import importlib
import pkgutil
import re

import numpy as np
import onnx

from vf import runeq, wf


# ---------------------------------------------------------------------------------------------------
# discovery: every rule object reachable from the exported names, in the order required
# ---------------------------------------------------------------------------------------------------

def _pattern_sig(rule):
    """Stable text of a rule's target pattern (anonymous ids stripped)."""
    try:
        s = str(rule._target_pattern)
    except Exception:  # noqa: BLE001
        return "?"
    s = re.sub(r"anonymous:\d+", "_", s)
    body = [l.strip() for l in s.splitlines()[1:-1] if l.strip() and not l.strip().startswith("return")]
    body = [re.sub(r"^\S+ = ", "", l) for l in body]
    return ";".join(body)


def discover():
    """-> list of dict(id, path, origin, name, sig).  path is how a worker re-obtains the live object.

    Order: optimizer default set (in order), then the remaining exports of rules.common (in __all__ order),
    then every module-level RewriteRule of the rules.fusion sub-modules.
    """
    import onnxscript.rewriter as RW
    import onnxscript.rewriter.rules.common as C
    import onnxscript.rewriter.rules.fusion as F
    from onnxscript.rewriter import RewriteRule, RewriteRuleSet

    export_of = {}
    common_items = []  # (export name, index or None, rule)
    for n in C.__all__:
        o = getattr(C, n)
        if callable(o) and not isinstance(o, (RewriteRule, RewriteRuleSet)):
            o = o()  # factory of a rule set (fuse_hardswish_rules)
            factory = True
        else:
            factory = False
        if isinstance(o, RewriteRuleSet):
            for i, r in enumerate(o.rules):
                common_items.append((n, i, r, factory))
        elif isinstance(o, RewriteRule):
            export_of[id(o)] = n
            common_items.append((n, None, o, factory))
    out = []
    seen = set()
    used_ids = set()

    def add(rid, path, origin, rule):
        base = rid
        k = 1
        while rid in used_ids:
            k += 1
            rid = f"{base}~{k}"
        used_ids.add(rid)
        out.append(dict(id=rid, path=path, origin=origin, name=getattr(rule, "name", None), sig=_pattern_sig(rule)))

    for i, r in enumerate(RW._DEFAULT_REWRITE_RULES):
        seen.add(id(r))
        rid = export_of.get(id(r)) or ("default:" + _pattern_sig(r).replace(" ", ""))
        add(rid, ["default", i], "default", r)
    for n, i, r, factory in common_items:
        if id(r) in seen:
            continue
        seen.add(id(r))
        if i is None:
            add(n, ["common", n], "common", r)
        else:
            add(f"{n}/{r.name or _pattern_sig(r)}", ["common_set", n, i, factory], "common", r)
    for m in sorted(x.name for x in pkgutil.iter_modules(F.__path__)):
        if m.endswith("_test"):
            continue
        mod = importlib.import_module(F.__name__ + "." + m)
        for k, v in vars(mod).items():
            if isinstance(v, RewriteRule) and id(v) not in seen:
                seen.add(id(v))
                add(f"fusion.{m}.{v.name or k}", ["fusion", m, k], "fusion", v)
    return out


_RULE_CACHE = {}


def resolve(path):
    key = tuple(path)
    if key in _RULE_CACHE:
        return _RULE_CACHE[key]
    import onnxscript.rewriter as RW
    import onnxscript.rewriter.rules.common as C
    if path[0] == "default":
        r = RW._DEFAULT_REWRITE_RULES[path[1]]
    elif path[0] == "common":
        r = getattr(C, path[1])
    elif path[0] == "common_set":
        o = getattr(C, path[1])
        if path[3]:
            o = o()
        r = o.rules[path[2]]
    elif path[0] == "fusion":
        mod = importlib.import_module("onnxscript.rewriter.rules.fusion." + path[1])
        r = getattr(mod, path[2])
    else:
        raise ValueError(path)
    _RULE_CACHE[key] = r
    return r


# ---------------------------------------------------------------------------------------------------
# application and oracle
# ---------------------------------------------------------------------------------------------------

def apply_rule(rule, model: onnx.ModelProto):
    """Apply exactly this rule.  -> (count, after ModelProto | None, error | None)."""
    from onnxscript import ir
    from onnxscript.rewriter import RewriteRuleSet
    m = ir.serde.deserialize_model(model)
    try:
        count = RewriteRuleSet([rule]).apply_to_model(m)
    except Exception as e:  # noqa: BLE001  (a refusal by exception: counted, C04 covers totality)
        return 0, None, f"{type(e).__name__}: {str(e)[:200]}"
    if not count:
        return 0, None, None
    try:
        after = ir.serde.serialize_model(m)
    except Exception as e:  # noqa: BLE001
        return count, None, f"serialize {type(e).__name__}: {str(e)[:200]}"
    return count, after, None


class _Sess:
    """runeq.run_ort only feeds names in session.get_inputs(); overridable initializers (initializer that is
    also a graph input) are listed separately by ORT, so without this proxy a feed that overrides a default
    would silently be dropped on the ORT side."""

    def __init__(self, model):
        self.s = runeq.make_session(model)

    def get_inputs(self):
        return list(self.s.get_inputs()) + list(self.s.get_overridable_initializers())

    def run(self, *a, **k):
        return self.s.run(*a, **k)


def _run_after(after, feeds):
    try:
        return runeq.run_ort(after, feeds, _Sess(after)), None
    except runeq.RunError as e:
        msg = e.msg
        if "NOT_IMPLEMENTED" in msg or "Could not find an implementation" in msg:
            try:
                return runeq.run_ref(after, feeds), None
            except runeq.RunError as e2:
                return None, f"ort:{e.kind} no kernel; ref-{e2.kind}: {e2.msg[:200]}"
            except Exception as e2:  # noqa: BLE001
                return None, f"ort:{e.kind} no kernel; ref-crash: {str(e2)[:200]}"
        return None, f"ort-{e.kind}: {msg[:300]}"


def check_valid(model):
    """onnx.checker for the declared opset (full_check) -> None | message."""
    try:
        onnx.checker.check_model(model, full_check=True)
        return None
    except Exception as e:  # noqa: BLE001
        return f"{type(e).__name__}: {str(e)[:400]}"


_ACC_TOL = {"float64": 1e-9, "float32": 2e-5, "float16": 4e-3}


def _close_accum(ref, got):
    """Round-off criterion for rewrites that re-associate a reduction (weights folded into Conv/Gemm, fused
    normalisations): same count/dtype/shape/NaN/inf pattern and |a-b| <= tol(dtype) * max(1, max|a|), i.e. the
    error is measured against the magnitude of the accumulated tensor instead of each (possibly cancelled) element."""
    if len(ref) != len(got):
        return False
    for a, b in zip(ref, got):
        a = np.asarray(a)
        b = np.asarray(b)
        if a.dtype != b.dtype or a.shape != b.shape:
            return False
        if a.dtype.kind != "f":
            if not (a == b).all():
                return False
            continue
        af = a.astype(np.float64)
        bf = b.astype(np.float64)
        fin = np.isfinite(af)
        if (fin != np.isfinite(bf)).any():
            return False
        if (~fin).any():
            x, y = af[~fin], bf[~fin]
            if not ((np.isnan(x) == np.isnan(y)).all() and (x[~np.isnan(x)] == y[~np.isnan(y)]).all()):
                return False
        if fin.any():
            scale = max(1.0, float(np.abs(af[fin]).max()))
            if (np.abs(af[fin] - bf[fin]) > _ACC_TOL.get(a.dtype.name, 2e-5) * scale).any():
                return False
    return True


def judge(rule, model, feeds, spec=None, accum=False, loose=1.0):
    """Run the whole C05 oracle on one host model.

    -> dict(outcome=..., fired=bool, problems=[(kind, detail)], admitted=int, skipped={reason:n})
    kinds: invalid-model, ill-formed, after-fails, not-equivalent
    """
    res = dict(fired=False, problems=[], admitted=0, skipped={}, outcome=None, after=None)
    bad = check_valid(model)
    if bad is not None:
        res["outcome"] = "skip:original-invalid"
        res["skip_detail"] = bad
        return res
    count, after, err = apply_rule(rule, model)
    if err is not None and after is None and count == 0:
        res["outcome"] = "refused:exception"
        res["error"] = err
        return res
    if count == 0:
        res["outcome"] = "not-fired"
        return res
    res["fired"] = True
    res["count"] = count
    if after is None:
        res["problems"].append(("invalid-model", {"what": err}))
        res["outcome"] = "fired:unserializable"
        return res
    res["after"] = after
    msg = check_valid(after)
    if msg is not None:
        res["problems"].append(("invalid-model", {"checker": msg}))
    w = wf.check_model(after)
    if w:
        res["problems"].append(("ill-formed", {"wf": w[:3]}))
    n_eq = 0
    try:
        sess = _Sess(model)
    except runeq.RunError:
        sess = None
    for k, fd in enumerate(feeds):
        ref, why = runeq.admit(model, fd, sess) if sess is not None else (None, "ort-load")
        if ref is None and spec is not None and sess is not None and why in ("ref-run", "ref-load", "ref-crash", "disagree"):
            # second opinion from the numpy specification instead of onnx.reference
            try:
                o = runeq.run_ort(model, fd, sess)
                exp = spec(fd)
            except runeq.RunError:
                o = exp = None
            if o is not None and exp is not None and runeq.compare(o, exp, loose=10.0) is None:
                ref = o
                res["admitted_by_spec"] = res.get("admitted_by_spec", 0) + 1
        if ref is None:
            res["skipped"][why] = res["skipped"].get(why, 0) + 1
            continue
        res["admitted"] += 1
        got, aerr = _run_after(after, fd)
        if got is None:
            res["problems"].append(("after-fails", {"feed": k, "error": aerr}))
            continue
        d = runeq.compare(ref, got, loose=loose)
        if d and accum and loose == 1.0 and _close_accum(ref, got):
            res["within_accum_roundoff"] = res.get("within_accum_roundoff", 0) + 1
            d = None
        if d:
            # symmetric caution: the two runtimes must also agree about the REWRITTEN model.  When the reference
            # evaluator runs it and reproduces the original outputs, ORT and onnx.reference disagree about the
            # rewritten model (e.g. a kernel that rounds an attribute differently): nothing is concluded.
            try:
                got_ref = runeq.run_ref(after, fd)
                ok_ref = runeq.compare(ref, got_ref, loose=loose) is None or (accum and _close_accum(ref, got_ref))
            except Exception:  # noqa: BLE001
                ok_ref = False
            if ok_ref:
                res["skipped"]["after-runtimes-disagree"] = res["skipped"].get("after-runtimes-disagree", 0) + 1
                continue
            res["problems"].append(("not-equivalent", {"feed": k, "diff": d,
                                                       "inputs": {n: runeq.describe(v) for n, v in fd.items()},
                                                       "before": runeq.describe(ref), "after": runeq.describe(got)}))
        else:
            n_eq += 1
    if res["problems"]:
        res["outcome"] = "fired:" + "+".join(sorted({p[0] for p in res["problems"]}))
    elif res["admitted"] == 0:
        res["outcome"] = "fired:unadmitted(" + ",".join(sorted(res["skipped"])) + ")"
    else:
        res["outcome"] = "fired:equivalent"
    return res


def render(model, limit=1200):
    try:
        return onnx.printer.to_text(model)[:limit]
    except Exception:  # noqa: BLE001
        return str(model)[:limit]
