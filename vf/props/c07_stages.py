"""C07 family ``stages``: HISTORIES of rewrite() calls on one model (each call runs the rules and then the clean-up passes).

    slot i (i < 3):  t_i = Add(x, b_i) ; [h_i = Identity(t_i)] ; r_i = LeakyRelu(t_i | h_i, alpha=a_i)     a_i all different

A slot is `live` (r_i is a graph output), `dead` (r_i is used by nobody: the clean-up removes the node, and the function
extracted for it, after the call), `hidden` (an Identity sits between Add and LeakyRelu: the extraction rule does not
match until the Identity has been forwarded away) or absent.  Stages:

    F   rewrite(model, [as_function rule  LeakyRelu(Add(x, b), alpha=a) -> c07.st::Fused(x, b)])   replacement == pattern
    I   rewrite(model, [Identity(x) -> x])                                                           forwarding rule

Enumerated: every layout in {live, dead, hidden, absent}^3 with at least one live slot x every history over {F, I} of
length <= 4 (quick: <= 3), every prefix judged.  Oracle after every stage: onnx.checker(full_check), the graph signature
is unchanged, and the outputs equal those of the ORIGINAL model on two inputs (ORT; a model with overloaded local functions
that ORT cannot resolve is run on an overload-renamed, ONNX-equivalent copy).  The extraction rule skips matches inside
function bodies it created (otherwise every F nests the previous functions, which is not what is explored here).

Seeded C07h numbered new overloads by counting the existing ones: after the clean-up removed overload "1", the next
extraction re-used "2" and replaced the body a live call still used - only a history F ... I ... F with a dead and a
hidden slot shows it.
"""
from __future__ import annotations

import itertools

import numpy as np
import onnx
from onnx import TensorProto as T
from onnx import helper as h
from onnx import numpy_helper as nh

KINDS = ["live", "dead", "hidden", "absent"]
ALPHAS = [0.1, 0.2, 0.7]
STAGES = ["F", "I"]


def plan_items(tier):
    maxlen = 3 if tier == "quick" else 4
    out = []
    for layout in itertools.product(KINDS, repeat=3):
        if "live" not in layout:
            continue
        for n in range(1, maxlen + 1):
            for hist in itertools.product(STAGES, repeat=n):
                out.append({"fam": "stages", "layout": list(layout), "hist": list(hist), "rule": "stages",
                            "blocks": [], "extra": "none", "meta": "off", "clash": "none"})
    return out


def build(item):
    vi = lambda n, s=(2, 3): h.make_tensor_value_info(n, T.FLOAT, list(s))   # noqa: E731
    nodes, outs, inits = [], [], []
    for i, kind in enumerate(item["layout"]):
        if kind == "absent":
            continue
        inits.append(nh.from_array(np.array([0.5 * (i + 1), -1.0, 2.0], dtype=np.float32), f"b{i}"))
        nodes.append(h.make_node("Add", ["x", f"b{i}"], [f"t{i}"], name=f"add{i}"))
        src = f"t{i}"
        if kind == "hidden":
            nodes.append(h.make_node("Identity", [src], [f"h{i}"], name=f"id{i}"))
            src = f"h{i}"
        nodes.append(h.make_node("LeakyRelu", [src], [f"r{i}"], name=f"lrelu{i}", alpha=ALPHAS[i]))
        if kind != "dead":
            outs.append(vi(f"r{i}"))
    g = h.make_graph(nodes, "stages", [vi("x")], outs, initializer=inits)
    m = h.make_model(g, opset_imports=[h.make_opsetid("", 18)], ir_version=10)
    feeds = [{"x": np.array([[0, -1, 2], [3, -2, 1]], dtype=np.float32)},
             {"x": np.array([[-5, 0.5, -0.25], [7, -7, 0]], dtype=np.float32)}]
    return m, feeds


def rules():
    from onnxscript.rewriter import pattern

    def pat(op, x, b):
        return op.LeakyRelu(op.Add(x, b))

    def rep(op, x, b, **_):
        return op.Fused(x, b, _domain="c07.st")

    def not_in_function(context, x, b, **_):
        # only matches whose nodes belong to a graph (the main graph or a subgraph), not to a function body
        from onnxscript import ir
        return isinstance(context.graph_or_function, ir.Graph)

    def ipat(op, x):
        return op.Identity(x)

    def irep(op, x):
        return x
    return {"F": pattern.RewriteRule(pat, rep, not_in_function, name="c07stagesF", as_function=True),
            "I": pattern.RewriteRule(ipat, irep, name="c07stagesI")}


def _sig(m):
    return ([(i.name, i.type.SerializeToString()) for i in m.graph.input],
            [(o.name, o.type.SerializeToString()) for o in m.graph.output])


def execute(item):
    from vf import runeq
    from vf.props import c07_hosts as H
    import onnxscript.rewriter
    m, feeds = build(item)
    show = f"stages layout={','.join(item['layout'])} history={''.join(item['hist'])}"
    nkey = "stages|" + show
    try:
        onnx.checker.check_model(m, full_check=True)
        sess0 = runeq.make_session(m.SerializeToString())
        base = []
        for f in feeds:
            o, why = runeq.admit(m, f, sess0)
            if o is None:
                return {"status": "skip", "skip": "orig-" + why, "outcome": "skip:orig-" + why, "nkey": nkey, "show": show}
            base.append(o)
    except Exception as e:  # noqa: BLE001
        return {"status": "skip", "skip": "orig-invalid", "outcome": "skip:orig-invalid", "nkey": nkey,
                "show": show + f" {type(e).__name__}: {e}"[:200]}
    sig0 = _sig(m)
    rs = rules()
    viols = []
    cur = onnx.ModelProto.FromString(m.SerializeToString())
    n_fn = 0
    counts = {"stages_executed": 0, "extra_evaluations": len(item["hist"]) - 1}

    def bad(kind, prefix, what):
        # the key names the shortest history class that shows it: stage letters up to the failing one
        viols.append({"key": f"C07|stages-{kind}|{''.join(prefix)}", "detail": {"what": str(what)[:400], "case": show}})
    for k, st in enumerate(item["hist"]):
        prefix = item["hist"][:k + 1]
        try:
            cur = onnxscript.rewriter.rewrite(cur, [rs[st]])
        except Exception as e:  # noqa: BLE001
            bad("raised", prefix, f"{type(e).__name__}: {e}")
            break
        counts["stages_executed"] += 1
        n_fn = max(n_fn, len(cur.functions))
        try:
            onnx.checker.check_model(cur, full_check=True)
        except Exception as e:  # noqa: BLE001
            bad("invalid-checker", prefix, e)
            break
        if _sig(cur) != sig0:
            bad("signature", prefix, "graph inputs/outputs changed")
            break
        mx = cur
        try:
            sess = runeq.make_session(cur.SerializeToString())
        except runeq.RunError as e:
            first = e.msg
            sess = None
            if any(getattr(f, "overload", "") for f in cur.functions):
                mx = H.normalise_for_execution(cur)
                try:
                    sess = runeq.make_session(mx.SerializeToString())
                    counts["ran_with_overloads_renamed"] = counts.get("ran_with_overloads_renamed", 0) + 1
                except runeq.RunError:
                    sess = None
            if sess is None:
                bad("ort-load", prefix, first)
                break
        stop = False
        for fi, (f, want) in enumerate(zip(feeds, base)):
            try:
                got = runeq.run_ort(mx, f, sess)
            except runeq.RunError as e:
                bad("run-fails", prefix, e.msg)
                stop = True
                break
            d = runeq.compare(want, got)
            if d:
                bad("not-equivalent", prefix, f"feed {fi}: {d}; functions="
                    f"{[(f2.name, getattr(f2, 'overload', '')) for f2 in cur.functions]}")
                stop = True
                break
        if stop:
            break
    outcome = "stages:" + ("viol" if viols else f"equivalent,fns={n_fn}")
    return {"status": "viol" if viols else "ok", "outcome": outcome, "viols": viols, "nkey": nkey, "show": show,
            "counts": counts}
