"""C13 helper: the round trip ONNX -> proto2python -> exec -> to_model_proto/to_function_proto and the
comparison of interfaces.  Everything here treats onnxscript as a black box reached through its public API.
"""
from __future__ import annotations

import itertools
import keyword
import linecache
import os
import sys
import types
import warnings

import onnx
from onnx import helper as oh

OPTION_NAMES = ("rename", "use_operators", "inline_const", "skip_initializers")
_counter = itertools.count()


# ---------------------------------------------------------------------------------------------------------
# The documented clean-up, written from the docstring of the exporter ("keywords get an r_ prefix, names that
# do not start with a letter/underscore get a __ prefix, every other non-alphanumeric character becomes _").
# Used only to say which interface names a round-tripped model is expected to carry.
# ---------------------------------------------------------------------------------------------------------
def spec_clean(name: str) -> str:
    if keyword.iskeyword(name) and name not in ("match", "case", "type", "_"):
        return "r_" + name
    if not (name[0].isalpha() or name[0] == "_"):
        name = "__" + name
    return "".join(c if (c.isalnum() or c == "_") else "_" for c in name)


class Stage(Exception):
    """The round trip stopped at `stage` with the exception `exc`."""

    def __init__(self, stage, exc):
        super().__init__(f"{stage}: {type(exc).__name__}: {exc}")
        self.stage = stage
        self.exc = exc


def _msg(e):
    s = f"{type(e).__name__}: {e}"
    return s[:400]


def exec_source(src):
    """compile + exec `src` in a fresh module.  -> (module, cleanup()).  Raises Stage('compile'|'exec')."""
    n = next(_counter)
    fname = f"<c13-{os.getpid()}-{n}>"
    modname = f"_c13_gen_{os.getpid()}_{n}"
    linecache.cache[fname] = (len(src), None, src.splitlines(True), fname)

    def cleanup():
        sys.modules.pop(modname, None)
        linecache.cache.pop(fname, None)

    try:
        code = compile(src, fname, "exec", dont_inherit=True)
    except (SyntaxError, ValueError) as e:
        cleanup()
        raise Stage("compile", e) from None
    mod = types.ModuleType(modname)
    mod.__file__ = fname
    sys.modules[modname] = mod
    try:
        with warnings.catch_warnings():
            warnings.simplefilter("ignore")
            exec(code, mod.__dict__)
    except Exception as e:  # noqa: BLE001  decoration (the @script converter) runs here
        cleanup()
        raise Stage("exec", e) from None
    return mod, cleanup


def export(proto, opts):
    """proto2python under the 4 options -> source.  Raises Stage('export')."""
    import onnxscript
    try:
        with warnings.catch_warnings():
            warnings.simplefilter("ignore")
            src = onnxscript.proto2python(proto, **opts)
    except Exception as e:  # noqa: BLE001
        raise Stage("export", e) from None
    if not isinstance(src, str):
        raise Stage("export", TypeError(f"proto2python returned {type(src).__name__}"))
    return src


def all_initializers(model):
    return big_initializers(model, threshold=-1)


def big_initializers(model, threshold=4):
    """Initializers (anywhere in the graph) with more than `threshold` elements, in traversal order."""
    out = []

    def walk(g):
        for init in g.initializer:
            size = 1
            for d in init.dims:
                size *= d
            if size > threshold:
                out.append(init)
        for n in g.node:
            for a in n.attribute:
                if a.type == onnx.AttributeProto.GRAPH:
                    walk(a.g)
                for sg in a.graphs:
                    walk(sg)
    walk(model.graph)
    return out


def back_to_model(proto, src, opts):
    """Execute generated source for a ModelProto and return the round-tripped ModelProto."""
    import inspect

    import onnxscript
    mod, cleanup = exec_source(src)
    try:
        want = spec_clean(proto.graph.name)
        if opts.get("skip_initializers") and hasattr(mod, "make_model"):
            # generated protocol: make_model(<one parameter per skipped initializer>) -> ModelProto
            mk = mod.make_model
            params = list(inspect.signature(mk).parameters)
            all_inits = all_initializers(proto)
            byname = {}
            for init in all_inits:
                byname.setdefault(spec_clean(init.name), []).append(init)
            if all(p in byname and len(byname[p]) == 1 for p in params):
                chosen = [byname[p][0] for p in params]          # by (cleaned) name
            else:
                chosen = big_initializers(proto)                  # rename=True: positional, traversal order
                if len(params) != len(chosen):
                    raise Stage("fetch", LookupError(
                        f"make_model takes parameters {params}; cannot match them to the model's initializers "
                        f"{[i.name for i in all_inits]}"))
            args = [onnx.numpy_helper.to_array(init) for init in chosen]
            try:
                with warnings.catch_warnings():
                    warnings.simplefilter("ignore")
                    m = mk(*args)
            except Exception as e:  # noqa: BLE001
                raise Stage("exec", e) from None
            if not isinstance(m, onnx.ModelProto):
                raise Stage("fetch", TypeError(f"make_model returned {type(m).__name__}"))
            return m, "make_model"
        fn = getattr(mod, want, None)
        if not isinstance(fn, onnxscript.OnnxFunction):
            have = sorted(k for k, v in mod.__dict__.items() if isinstance(v, onnxscript.OnnxFunction))
            raise Stage("fetch", LookupError(f"no script function {want!r} in generated module (has {have})"))
        try:
            with warnings.catch_warnings():
                warnings.simplefilter("ignore")
                m = fn.to_model_proto()
        except Exception as e:  # noqa: BLE001
            raise Stage("to_proto", e) from None
        return m, "function"
    finally:
        cleanup()


def back_to_function(proto, src, opts):
    import onnxscript
    mod, cleanup = exec_source(src)
    try:
        want = spec_clean(proto.name)
        fn = getattr(mod, want, None)
        if not isinstance(fn, onnxscript.OnnxFunction):
            have = sorted(k for k, v in mod.__dict__.items() if isinstance(v, onnxscript.OnnxFunction))
            raise Stage("fetch", LookupError(f"no script function {want!r} in generated module (has {have})"))
        try:
            with warnings.catch_warnings():
                warnings.simplefilter("ignore")
                f = fn.to_function_proto()
        except Exception as e:  # noqa: BLE001
            raise Stage("to_proto", e) from None
        return f
    finally:
        cleanup()


# ---------------------------------------------------------------------------------------------------------
# interface comparison
# ---------------------------------------------------------------------------------------------------------
def type_sig(tp: onnx.TypeProto):
    if tp.HasField("tensor_type"):
        tt = tp.tensor_type
        if tt.HasField("shape"):
            dims = []
            for d in tt.shape.dim:
                if d.HasField("dim_value"):
                    dims.append(d.dim_value)
                elif d.HasField("dim_param"):
                    dims.append(d.dim_param)
                else:
                    dims.append(None)
            return ("tensor", tt.elem_type, tuple(dims))
        return ("tensor", tt.elem_type, "norank")
    return (tp.WhichOneof("value") or "untyped",)


def model_interface_diff(orig: onnx.ModelProto, back: onnx.ModelProto, rename: bool, all_names=()):
    """-> list of problem strings.  Names of inputs are compared after the documented clean-up unless the
    rename option (documented as 'rename the names to get shorter names') is on, or the cleaned name is shared
    with another value of the model (then no naming can both follow the clean-up and stay injective)."""
    probs = []
    cleaned = {}
    for n in all_names:
        cleaned.setdefault(spec_clean(n), set()).add(n)
    ambiguous = {c for c, ns in cleaned.items() if len(ns) > 1}
    oi = list(orig.graph.input)
    bi = list(back.graph.input)
    oo, bo = list(orig.graph.output), list(back.graph.output)
    if len(oi) != len(bi):
        probs.append(f"input count {len(oi)} -> {len(bi)}")
    if len(oo) != len(bo):
        probs.append(f"output count {len(oo)} -> {len(bo)}")
    for k, (a, b) in enumerate(zip(oi, bi)):
        if type_sig(a.type) != type_sig(b.type):
            probs.append(f"input {k} type {type_sig(a.type)} -> {type_sig(b.type)}")
        if not rename and spec_clean(a.name) != b.name and spec_clean(a.name) not in ambiguous:
            probs.append(f"input {k} name {a.name!r} -> {b.name!r} (clean-up gives {spec_clean(a.name)!r})")
    if len({i.name for i in bi}) != len(bi):
        probs.append(f"input names not distinct: {[i.name for i in bi]}")
    for k, (a, b) in enumerate(zip(oo, bo)):
        if type_sig(a.type) != type_sig(b.type):
            probs.append(f"output {k} type {type_sig(a.type)} -> {type_sig(b.type)}")
    return probs


def function_interface_diff(orig: onnx.FunctionProto, back: onnx.FunctionProto, rename: bool):
    probs = []
    if len(orig.input) != len(back.input):
        probs.append(f"input count {len(orig.input)} -> {len(back.input)}")
    if len(orig.output) != len(back.output):
        probs.append(f"output count {len(orig.output)} -> {len(back.output)}")
    oa = list(orig.attribute) + [a.name for a in orig.attribute_proto]
    ba = list(back.attribute) + [a.name for a in back.attribute_proto]
    if sorted(oa) != sorted(ba):
        probs.append(f"attribute parameters {oa} -> {ba}")
    if (orig.domain, orig.name) != (back.domain, back.name):
        probs.append(f"identity {(orig.domain, orig.name)} -> {(back.domain, back.name)}")
    return probs


# ---------------------------------------------------------------------------------------------------------
# running a FunctionProto: a one-node model around it (built here with onnx.helper only)
# ---------------------------------------------------------------------------------------------------------
def function_harness(f: onnx.FunctionProto, in_types, out_types, attrs=None, deps=(), ir_version=8):
    """in_types/out_types: lists of TypeProto; attrs: dict passed on the call node."""
    ins = [oh.make_value_info(f"hin{k}", t) for k, t in enumerate(in_types)]
    outs = [oh.make_value_info(f"hout{k}", t) for k, t in enumerate(out_types)]
    node = oh.make_node(f.name, [i.name for i in ins], [o.name for o in outs], domain=f.domain, **(attrs or {}))
    g = oh.make_graph([node], "harness", ins, outs)
    imports = {}
    for fn in [f, *deps]:
        for o in fn.opset_import:
            imports.setdefault(o.domain, o.version)
        imports.setdefault(fn.domain, 1)
    m = oh.make_model(g, opset_imports=[oh.make_opsetid(d, v) for d, v in imports.items()], ir_version=ir_version)
    seen = set()
    for fn in [f, *deps]:
        k = (fn.domain, fn.name)
        if k in seen:
            continue
        seen.add(k)
        m.functions.append(fn)
    return m
