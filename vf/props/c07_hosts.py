"""C07 helper: host-model builder, a small independent matcher for the fixed C07 patterns, structural views.

Nothing here imports onnxscript: hosts are built with onnx.helper and inspected as protos, so the oracle side
is independent of the code under test.
"""
from __future__ import annotations

import onnx
from onnx import TensorProto as T
from onnx import helper as h
from onnx import numpy_helper as nh
import numpy as np

OPSET = 18
IR_VERSION = 10
HOST_DOMAIN = "c07.host"
FN_DOMAIN = "c07.fn"
INIT_NAME = "c07_one"
META_KEY = "c07.tag"
RULE_TAG = "pkg.onnxscript.rewriter.rule_name"

SITES = ["main", "then", "else", "loop", "func", "deep", "deep_loop", "func_if"]
WIRINGS = ["plain", "chain", "gout", "nested", "inter", "cross", "dup", "fork", "fork_gout"]
EXTRAS = ["none", "pre", "post"]
CLASHES = ["none", "diff", "same", "diff_sub"]

# ---------------------------------------------------------------------------------------------------
# Pattern specs (for the independent matcher).  A pattern is a list of pattern nodes in topological order;
# an input is a variable name (str) or a reference (k, j) = output j of pattern node k.  `roots` lists the
# pattern nodes that produce the outputs, `outputs` the output references in order.
# ---------------------------------------------------------------------------------------------------
PATTERNS = {
    "neg": dict(nodes=[("Neg", ["x"], 1)], outputs=[(0, 0)]),
    "negneg": dict(nodes=[("Neg", ["x"], 1), ("Neg", [(0, 0)], 1)], outputs=[(1, 0)]),
    "addmul": dict(nodes=[("Add", ["x", "y"], 1), ("Mul", [(0, 0), "z"], 1)], outputs=[(1, 0)]),
    "add": dict(nodes=[("Add", ["x", "y"], 1)], outputs=[(0, 0)]),
    "relu": dict(nodes=[("Relu", ["x"], 1)], outputs=[(0, 0)]),
    "split": dict(nodes=[("Split", ["x"], 2)], outputs=[(0, 0), (0, 1)]),
    # two output nodes sharing the input; `first` is the pattern's first output node (the match root)
    "pair": dict(nodes=[("Neg", ["x"], 1), ("Relu", ["x"], 1)], outputs=[(0, 0), (1, 0)]),
    "pair_rev": dict(nodes=[("Relu", ["x"], 1), ("Neg", ["x"], 1)], outputs=[(0, 0), (1, 0)]),
}
MULTI_NODE = {"negneg", "addmul"}           # patterns with an intermediate value


def _vi(name, elem=T.FLOAT, shape=(2, 3)):
    return h.make_tensor_value_info(name, elem, list(shape))


class _B:
    """Accumulates nodes for one scope; attaches metadata."""

    def __init__(self, meta):
        self.meta = meta

    def node(self, op, ins, outs, name, domain="", **attrs):
        n = h.make_node(op, list(ins), list(outs), name=name, domain=domain, **attrs)
        if self.meta:
            e = n.metadata_props.add()
            e.key, e.value = META_KEY, name
            if op in ("Sub", "Neg"):
                e = n.metadata_props.add()
                e.key, e.value = RULE_TAG, "prev"
        return n


def _template(kind, p, a, y, w, j, b):
    """One instance of pattern `kind` reading value `a`.

    -> dict(inner=[nodes before the root], root=[root node(s) (+ interleaved unmatched nodes)],
            outs=[(name, shape)], inter=name|None, combine=fn(suffix)->(nodes, t))
    """
    if kind in ("neg",):
        t = f"{p}_t"
        return dict(inner=[], root=[b.node("Neg", [a], [t], f"{p}_root")], outs=[(t, (2, 3))], inter=None,
                    combine=lambda s: ([], t))
    if kind == "relu":
        t = f"{p}_t"
        return dict(inner=[], root=[b.node("Relu", [a], [t], f"{p}_root")], outs=[(t, (2, 3))], inter=None,
                    combine=lambda s: ([], t))
    if kind == "add":
        t = f"{p}_t"
        return dict(inner=[], root=[b.node("Add", [a, y], [t], f"{p}_root")], outs=[(t, (2, 3))], inter=None,
                    combine=lambda s: ([], t))
    if kind == "negneg":
        m, t = f"{p}_m", f"{p}_t"
        return dict(inner=[b.node("Neg", [a], [m], f"{p}_inner")], root=[b.node("Neg", [m], [t], f"{p}_root")],
                    outs=[(t, (2, 3))], inter=m, combine=lambda s: ([], t))
    if kind == "addmul":
        m, t = f"{p}_m", f"{p}_t"
        return dict(inner=[b.node("Add", [a, y], [m], f"{p}_inner")],
                    root=[b.node("Mul", [m, w], [t], f"{p}_root")],
                    outs=[(t, (2, 3))], inter=m, combine=lambda s: ([], t))
    if kind == "split":
        axis = j % 2
        s0, s1 = f"{p}_s0", f"{p}_s1"
        shapes = [(1, 3), (1, 3)] if axis == 0 else [(2, 2), (2, 1)]

        def comb(s):
            t = f"{p}_t{s}"
            return [b.node("Concat", [s0, s1], [t], f"{p}_cat{s}", axis=axis)], t
        return dict(inner=[], root=[b.node("Split", [a], [s0, s1], f"{p}_root", axis=axis, num_outputs=2)],
                    outs=[(s0, shapes[0]), (s1, shapes[1])], inter=None, combine=comb)
    if kind in ("pair", "pair_rev"):
        t1, u, t2 = f"{p}_t1", f"{p}_u", f"{p}_t2"

        def comb(s):
            t = f"{p}_t{s}"
            return [b.node("Sub", [u, t2], [t], f"{p}_cmb{s}")], t
        return dict(inner=[], root=[b.node("Neg", [a], [t1], f"{p}_root"), b.node("Tanh", [t1], [u], f"{p}_mid"),
                                    b.node("Relu", [a], [t2], f"{p}_root2")],
                    outs=[(t1, (2, 3)), (t2, (2, 3))], inter=None, combine=comb)
    raise KeyError(kind)


def _if(b, name, cond, out, then_nodes, then_out, else_nodes, else_out):
    tg = h.make_graph(then_nodes, name + "_then", [], [_vi(then_out)])
    eg = h.make_graph(else_nodes, name + "_else", [], [_vi(else_out)])
    return b.node("If", [cond], [out], name, then_branch=tg, else_branch=eg)


def _body(kind, wiring, p, a, y, w, c, j, b):
    """-> (nodes, result value name, extra graph outputs [(name, shape)])"""
    # "dup": every pattern input of the instance is the same value (Add(a, a), Mul(Add(a, a), a)): two pattern
    # variables bound to one value; the rest of the block is wired like "plain"
    tp = _template(kind, p, a, a, a, j, b) if wiring == "dup" else _template(kind, p, a, y, w, j, b)
    extra = []
    if wiring in ("plain", "gout", "inter", "dup"):
        cn, t = tp["combine"]("")
        r = f"{p}_r"
        other = y if wiring != "inter" else tp["inter"]
        nodes = tp["inner"] + tp["root"] + cn + [b.node("Sub", [t, other], [r], f"{p}_sub")]
        if wiring == "gout":
            extra = list(tp["outs"])
        return nodes, r, extra
    if wiring == "chain":
        cn, t = tp["combine"]("")
        return tp["inner"] + tp["root"] + cn, t, extra
    if wiring in ("fork", "fork_gout"):
        # two instances in parallel reading the SAME source value; with fork_gout both matched outputs are graph
        # outputs as well (seeded C07e: a forwarding replacement renamed the shared source twice)
        ta = _template(kind, p + "_fa", a, y, w, j, b)
        tb = _template(kind, p + "_fb", a, y, w, j, b)
        ca, xa = ta["combine"]("")
        cb, xb = tb["combine"]("")
        r = f"{p}_r"
        nodes = ta["inner"] + ta["root"] + ca + tb["inner"] + tb["root"] + cb + [b.node("Sub", [xa, xb], [r], f"{p}_sub")]
        if wiring == "fork_gout":
            extra = list(ta["outs"]) + list(tb["outs"])
        return nodes, r, extra
    if wiring == "nested":
        cn1, t1 = tp["combine"]("a")
        cn2, t2 = tp["combine"]("b")
        r = f"{p}_r"
        ifn = _if(b, f"{p}_nif", c, r,
                  cn1 + [b.node("Sub", [t1, y], [f"{p}_ns"], f"{p}_nsub")], f"{p}_ns",
                  cn2 + [b.node("Tanh", [t2], [f"{p}_nt"], f"{p}_ntanh")], f"{p}_nt")
        return tp["inner"] + tp["root"] + [ifn], r, extra
    if wiring == "cross":
        cn, t = tp["combine"]("")
        r = f"{p}_r"
        ifn = _if(b, f"{p}_xif", c, r, tp["root"] + cn + [b.node("Sub", [t, y], [f"{p}_xs"], f"{p}_xsub")], f"{p}_xs",
                  [b.node("Tanh", [a], [f"{p}_xt"], f"{p}_xtanh")], f"{p}_xt")
        return tp["inner"] + [ifn], r, extra
    raise KeyError(wiring)


def _loop(b, p, cur, y, w, c, kind, wiring, j):
    iv, cv, v = f"{p}_i", f"{p}_cnd", f"{p}_v"
    nodes, r, _ = _body(kind, wiring, p, cur, v, w, c, j, b)
    co = f"{p}_co"
    body = h.make_graph([b.node("Identity", [cv], [co], f"{p}_cid")] + nodes, f"{p}_body",
                        [_vi(iv, T.INT64, ()), _vi(cv, T.BOOL, ()), _vi(v)], [_vi(co, T.BOOL, ()), _vi(r)])
    out = f"{p}_L"
    return b.node("Loop", ["trip", "ktrue", cur], [out], f"{p}_loop", body=body), out


def valid_combo(kind, site, wiring):
    if wiring in ("inter", "cross") and kind not in MULTI_NODE:
        return False
    if wiring in ("gout", "fork_gout") and site != "main":
        return False
    if wiring == "dup" and kind not in ("add", "addmul"):
        return False
    return True


def build_host(spec):
    """spec: dict(kind, blocks=[[site, wiring],...], extra, meta, clash) -> ModelProto"""
    kind = spec["kind"]
    b = _B(spec.get("meta", "on") == "on")
    nodes, functions, extra_outs, inits = [], [], [], []
    uses_loop = False
    cur = "x"
    clash = spec.get("clash", "none")
    if clash in ("diff", "same", "diff_sub"):
        val = 1.0 if clash == "same" else 2.0
        inits.append(nh.from_array(np.array(val, dtype=np.float32), INIT_NAME))
        if clash == "diff_sub":
            # the consumer of the existing initializer sits inside a subgraph (outer-scope reference)
            nodes.append(_if(b, "k_if", "c", "k_o",
                             [b.node("Sub", [cur, INIT_NAME], ["k_s"], "k_sub")], "k_s",
                             [b.node("Tanh", [cur], ["k_t"], "k_tanh")], "k_t"))
        else:
            nodes.append(b.node("Sub", [cur, INIT_NAME], ["k_o"], "k_sub"))
        cur = "k_o"
    if spec.get("extra") == "pre":
        nodes.append(b.node("Neg", [cur], ["pre_o"], "pre_neg"))
        cur = "pre_o"
    for j, (site, wiring) in enumerate(spec["blocks"]):
        p = f"b{j}"
        if site == "main":
            ns, r, ex = _body(kind, wiring, p, cur, "y", "w", "c", j, b)
            nodes += ns
            extra_outs += ex
            cur = r
        elif site in ("then", "else"):
            ns, r, _ = _body(kind, wiring, p, cur, "y", "w", "c", j, b)
            other = [b.node("Tanh", [cur], [f"{p}_e"], f"{p}_etanh")]
            out = f"{p}_o"
            if site == "then":
                nodes.append(_if(b, f"{p}_if", "c", out, ns, r, other, f"{p}_e"))
            else:
                nodes.append(_if(b, f"{p}_if", "c", out, other, f"{p}_e", ns, r))
            cur = out
        elif site == "loop":
            uses_loop = True
            ln, out = _loop(b, p, cur, "y", "w", "c", kind, wiring, j)
            nodes.append(ln)
            cur = out
        elif site == "deep":
            ns, r, _ = _body(kind, wiring, p, cur, "y", "w", "c", j, b)
            inner = _if(b, f"{p}_if2", "c", f"{p}_o2", ns, r,
                        [b.node("Tanh", [cur], [f"{p}_e2"], f"{p}_etanh2")], f"{p}_e2")
            out = f"{p}_o"
            nodes.append(_if(b, f"{p}_if", "c", out, [inner], f"{p}_o2",
                             [b.node("Tanh", [cur], [f"{p}_e"], f"{p}_etanh")], f"{p}_e"))
            cur = out
        elif site == "deep_loop":
            uses_loop = True
            ln, lo = _loop(b, p, cur, "y", "w", "c", kind, wiring, j)
            out = f"{p}_o"
            nodes.append(_if(b, f"{p}_if", "c", out, [ln], lo,
                             [b.node("Tanh", [cur], [f"{p}_e"], f"{p}_etanh")], f"{p}_e"))
            cur = out
        elif site in ("func", "func_if"):
            ns, r, _ = _body(kind, wiring, p, "a", "y", "w", "c", j, b)
            if site == "func_if":
                fo = f"{p}_fo"
                ns = [_if(b, f"{p}_fif", "c", fo, ns, r, [b.node("Tanh", ["a"], [f"{p}_fe"], f"{p}_fetanh")], f"{p}_fe")]
                r = fo
            f = h.make_function(HOST_DOMAIN, f"F{j}", ["a", "y", "w", "c"], [r], ns,
                                opset_imports=[h.make_opsetid("", OPSET)])
            functions.append(f)
            out = f"{p}_fc"
            nodes.append(b.node(f"F{j}", [cur, "y", "w", "c"], [out], f"{p}_call", domain=HOST_DOMAIN))
            cur = out
        else:
            raise KeyError(site)
    if spec.get("extra") == "post":
        nodes.append(b.node("Neg", [cur], ["post_o"], "post_neg"))
        cur = "post_o"
    if cur == "x":
        nodes.append(b.node("Sub", ["x", "w"], ["fin_o"], "fin_sub"))
        cur = "fin_o"
    if uses_loop:
        inits.append(nh.from_array(np.array(2, dtype=np.int64), "trip"))
        inits.append(nh.from_array(np.array(True, dtype=np.bool_), "ktrue"))
    outs = [_vi(n, T.FLOAT, s) for n, s in extra_outs] + [_vi(cur)]
    g = h.make_graph(nodes, "c07host", [_vi("x"), _vi("y"), _vi("w"), _vi("c", T.BOOL, ())], outs, initializer=inits)
    imports = [h.make_opsetid("", OPSET)]
    if functions:
        imports.append(h.make_opsetid(HOST_DOMAIN, 1))
    m = h.make_model(g, opset_imports=imports, ir_version=IR_VERSION, functions=functions)
    return m


# ---------------------------------------------------------------------------------------------------
# Structural view of a model: every node with its scope path
# ---------------------------------------------------------------------------------------------------

def _attr_key(a):
    c = onnx.AttributeProto()
    c.CopyFrom(a)
    return c.SerializeToString(deterministic=True)


class NodeRec:
    __slots__ = ("scope", "top", "idx", "name", "domain", "op", "overload", "attrs", "meta", "inputs", "outputs", "proto")

    def __init__(self, scope, top, idx, n):
        self.scope, self.top, self.idx = scope, top, idx
        self.name, self.domain, self.op = n.name, n.domain or "", n.op_type
        self.overload = getattr(n, "overload", "")
        self.attrs = tuple(sorted((a.name, _attr_key(a)) for a in n.attribute
                                  if a.type not in (onnx.AttributeProto.GRAPH, onnx.AttributeProto.GRAPHS)))
        self.meta = tuple(sorted((e.key, e.value) for e in n.metadata_props))
        self.inputs, self.outputs = tuple(n.input), tuple(n.output)
        self.proto = n

    def desc(self, with_meta=True):
        return (self.scope, self.domain, self.op, self.name, self.attrs, self.meta if with_meta else None, self.outputs)


class View:
    """scopes: {path: dict(nodes=[NodeRec], outputs=[names], inputs=[names], inits={name: bytes}, top=str)}"""

    def __init__(self, model):
        self.scopes = {}
        self.nodes = []
        self._walk_graph(model.graph, "main", "main")
        for f in model.functions:
            top = f"func:{f.domain}:{f.name}:{getattr(f, 'overload', '')}"
            self._walk(top, top, f.node, list(f.input), list(f.output), {})
        self.by_name = {}
        for r in self.nodes:
            self.by_name.setdefault(r.name, []).append(r)
        # uses: value name -> list of NodeRec (anywhere in the same top-level container)
        self.uses = {}
        for r in self.nodes:
            for i in r.inputs:
                if i:
                    self.uses.setdefault((r.top, i), []).append(r)

    def _walk_graph(self, g, path, top):
        inits = {}
        for t in g.initializer:
            c = onnx.TensorProto()
            c.CopyFrom(t)
            c.ClearField("name")
            inits[t.name] = c.SerializeToString(deterministic=True)
        self._walk(path, top, g.node, [i.name for i in g.input], [o.name for o in g.output], inits)

    def _walk(self, path, top, nodes, inputs, outputs, inits):
        recs = []
        self.scopes[path] = dict(nodes=recs, inputs=inputs, outputs=outputs, inits=inits, top=top)
        for idx, n in enumerate(nodes):
            r = NodeRec(path, top, idx, n)
            recs.append(r)
            self.nodes.append(r)
            for a in n.attribute:
                if a.type == onnx.AttributeProto.GRAPH:
                    self._walk_graph(a.g, f"{path}/{n.name}.{a.name}", top)
                elif a.type == onnx.AttributeProto.GRAPHS:
                    for k, sg in enumerate(a.graphs):
                        self._walk_graph(sg, f"{path}/{n.name}.{a.name}[{k}]", top)


# ---------------------------------------------------------------------------------------------------
# Independent matcher for the fixed patterns
# ---------------------------------------------------------------------------------------------------

class Instance:
    __slots__ = ("scope", "nodes", "outputs", "bindings", "removable", "root")

    def __init__(self, scope, nodes, outputs, bindings, removable, root):
        self.scope, self.nodes, self.outputs, self.bindings = scope, nodes, outputs, bindings
        self.removable, self.root = removable, root

    def names(self):
        return [n.name for n in self.nodes]


def find_instances(view, kind):
    """Every occurrence of pattern `kind` whose nodes all lie in one scope (a match never spans scopes)."""
    pat = PATTERNS[kind]
    pnodes = pat["nodes"]
    out = []
    for path, sc in view.scopes.items():
        prod = {}
        for r in sc["nodes"]:
            for o in r.outputs:
                if o:
                    prod[o] = r
        scope_outs = set(sc["outputs"])

        def match_node(k, rec, nb, vb):
            op, ins, nout = pnodes[k]
            if rec.op != op or rec.domain != "" or len(rec.inputs) != len(ins) or len(rec.outputs) != nout:
                return False
            if k in nb:
                return nb[k] is rec
            nb[k] = rec
            for ref, actual in zip(ins, rec.inputs):
                if isinstance(ref, str):
                    if ref in vb and vb[ref] != actual:
                        return False
                    vb[ref] = actual
                else:
                    pk, pj = ref
                    pr = prod.get(actual)
                    if pr is None or pr.outputs[pj] != actual:
                        return False
                    if not match_node(pk, pr, nb, vb):
                        return False
            return True

        root_ks = []
        for (k, _j) in pat["outputs"]:
            if k not in root_ks:
                root_ks.append(k)
        first = root_ks[0]
        for rec in sc["nodes"]:
            cands = [({}, {})]
            nb, vb = {}, {}
            if not match_node(first, rec, nb, vb):
                continue
            partial = [(nb, vb)]
            for k in root_ks[1:]:
                nxt = []
                for (nb0, vb0) in partial:
                    for rec2 in sc["nodes"]:
                        nb1, vb1 = dict(nb0), dict(vb0)
                        if rec2 in nb1.values():
                            continue
                        if match_node(k, rec2, nb1, vb1):
                            nxt.append((nb1, vb1))
                partial = nxt
            for (nb1, vb1) in partial:
                if len(nb1) != len(pnodes):
                    continue
                mnodes = [nb1[k] for k in range(len(pnodes))]
                outs = [nb1[k].outputs[j] for (k, j) in pat["outputs"]]
                removable = True
                for mn in mnodes:
                    for o in mn.outputs:
                        if o in outs:
                            continue
                        if o in scope_outs:
                            removable = False
                        for u in view.uses.get((mn.top, o), []):
                            if all(u is not x for x in mnodes):
                                removable = False
                out.append(Instance(path, mnodes, outs, vb1, removable, rec))
            del cands
    return out


def signature(model):
    g = model.graph
    return ([i.SerializeToString(deterministic=True) for i in g.input],
            [o.SerializeToString(deterministic=True) for o in g.output])


def render(model, limit=1800):
    try:
        s = onnx.printer.to_text(model)
    except Exception as e:  # noqa: BLE001
        s = f"<unprintable: {e}>"
    return s if len(s) <= limit else s[:limit] + " ..."


# ---------------------------------------------------------------------------------------------------
# Scoped SSA (what ONNX requires: a name defined in a graph must differ from every name of that graph and
# from the outer names *visible* where the subgraph sits; a later sibling definition is not visible)
# ---------------------------------------------------------------------------------------------------

def scoped_ssa_problems(model):
    problems = []

    def walk_nodes(nodes, visible, path):
        for idx, n in enumerate(nodes):
            for a in n.attribute:
                gs = [a.g] if a.type == onnx.AttributeProto.GRAPH else list(a.graphs) if a.type == onnx.AttributeProto.GRAPHS else []
                for g in gs:
                    walk_graph(g, set(visible), f"{path}/{n.name or n.op_type}.{a.name}")
            for o in n.output:
                if not o:
                    continue
                if o in visible:
                    problems.append(f"{path}: value '{o}' defined more than once (node #{idx} {n.op_type})")
                visible.add(o)

    def walk_graph(g, visible, path):
        ins = [i.name for i in g.input]
        for nme in ins:
            if nme in visible:
                problems.append(f"{path}: input '{nme}' redefines a visible name")
            visible.add(nme)
        for t in g.initializer:
            if t.name in ins:
                continue
            if t.name in visible:
                problems.append(f"{path}: initializer '{t.name}' redefines a visible name")
            visible.add(t.name)
        walk_nodes(g.node, visible, path)

    walk_graph(model.graph, set(), "graph")
    for f in model.functions:
        walk_nodes(f.node, set(f.input), f"function {f.domain}::{f.name}")
    return problems


def wf_problems(model):
    """vf.wf with its all-scopes-global SSA rule replaced by the scoped rule above."""
    from vf import wf
    out = [p for p in wf.check_model(model)
           if "defined more than once" not in p and "redefines an existing name" not in p
           and "redefines an outer name" not in p]
    return out + scoped_ssa_problems(model)


def normalise_for_execution(model):
    """Semantics-preserving rewrite of the *proto* for runtimes that cannot resolve an overloaded model-local
    function called from another function (ORT) or need callees listed first (onnx.reference):
    give every overloaded function a fresh unique name and order functions callee-first."""
    m = onnx.ModelProto()
    m.CopyFrom(model)
    names = {(f.domain, f.name) for f in m.functions if not getattr(f, "overload", "")}
    ren = {}
    for f in m.functions:
        ov = getattr(f, "overload", "")
        if ov:
            new = f"{f.name}__ov{ov}"
            while (f.domain, new) in names:
                new += "_"
            names.add((f.domain, new))
            ren[(f.domain, f.name, ov)] = new

    def fix_nodes(nodes):
        for n in nodes:
            k = (n.domain, n.op_type, getattr(n, "overload", ""))
            if k in ren:
                n.op_type = ren[k]
                n.overload = ""
            for a in n.attribute:
                if a.type == onnx.AttributeProto.GRAPH:
                    fix_nodes(a.g.node)
                elif a.type == onnx.AttributeProto.GRAPHS:
                    for g in a.graphs:
                        fix_nodes(g.node)

    fix_nodes(m.graph.node)
    for f in m.functions:
        fix_nodes(f.node)
        k = (f.domain, f.name, getattr(f, "overload", ""))
        if k in ren:
            f.name = ren[k]
            f.overload = ""
    # callee-first order
    fs = list(m.functions)
    keys = {(f.domain, f.name): f for f in fs}

    def callees(nodes, acc):
        for n in nodes:
            if (n.domain, n.op_type) in keys:
                acc.add((n.domain, n.op_type))
            for a in n.attribute:
                if a.type == onnx.AttributeProto.GRAPH:
                    callees(a.g.node, acc)
                elif a.type == onnx.AttributeProto.GRAPHS:
                    for g in a.graphs:
                        callees(g.node, acc)
        return acc

    order, seen = [], set()

    def visit(k, stack=()):
        if k in seen or k in stack:
            return
        for c in sorted(callees(keys[k].node, set())):
            visit(c, stack + (k,))
        seen.add(k)
        order.append(keys[k])

    for f in fs:
        visit((f.domain, f.name))
    del m.functions[:]
    m.functions.extend(order)
    return m
