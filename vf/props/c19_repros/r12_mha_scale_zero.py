"""MultiHeadAttention(Mul(q, 0.0), k, v): FuseMHAScale writes scale=0.0, which ORT treats as 'use 1/sqrt(head_size)'."""
from common import *
m = onnx.parser.parse_model('''<ir_version: 10, opset_import: ["" : 18, "com.microsoft" : 1]>
g (float[1,3,8] q, float[1,3,8] k, float[1,3,8] v) => (float[1,3,8] y) {
  z = Constant<value = float {0.0}>()
  qs = Mul(q, z)
  y = com.microsoft.MultiHeadAttention<num_heads=2>(qs, k, v)
}''')
x = (np.arange(24, dtype=np.float32).reshape(1, 3, 8) % 5 - 2) / 2
feeds = {"q": x, "k": x + 0.5, "v": x - 0.25}
a = run(m, feeds)[0]; fused, counts = ofo(m); b = run(fused, feeds)[0]
print(counts, "max abs difference:", float(np.abs(a - b).max()))
