"""SDPA with the exporter's NaN guard Where(IsNaN(softmax), 0, softmax) and an additive mask whose first row is all
-inf (a fully padded query position): the original returns 0 there, the fused MultiHeadAttention returns NaN."""
from common import *
m = onnx.parser.parse_model('''<ir_version: 10, opset_import: ["" : 18]>
g (float[1,2,3,4] q, float[1,2,3,4] k, float[1,2,3,4] v, float[1,1,3,3] mask) => (float[1,2,3,4] y) {
  s = Constant<value = float {0.5}>()  zero = Constant<value = float {0.0}>()
  kt = Transpose<perm=[0,1,3,2]>(k)
  qk = MatMul(q, kt)
  sc = Mul(qk, s)
  scm = Add(sc, mask)
  w = Softmax<axis=-1>(scm)
  isn = IsNaN(w)
  w2 = Where(isn, zero, w)
  y = MatMul(w2, v)
}''')
x = (np.arange(24, dtype=np.float32).reshape(1, 2, 3, 4) % 5 - 2) / 4
mask = np.zeros((1, 1, 3, 3), np.float32); mask[0, 0, 0, :] = -np.inf
feeds = {"q": x, "k": x[..., ::-1].copy(), "v": x + 1, "mask": mask}
print("original row 0:", run(m, feeds)[0][0, 0, 0])
fused, counts = ofo(m); print(counts)
print("fused    row 0:", run(fused, feeds)[0][0, 0, 0])
