"""Gelu(Add(x[2,3,4], b[1])): BiasGeluFusion.check only requires rank(bias)==1; BiasGelu needs len(bias)==x.shape[-1].
Same for x of shape [2,3,1] with b[4]."""
from common import *
for xs, bs in (("2,3,4", "1"), ("2,3,1", "4")):
    m = onnx.parser.parse_model(f'''<ir_version: 10, opset_import: ["" : 20]>
    g (float[{xs}] x, float[{bs}] b) => (float[2,3,4] y) {{ s = Add(x, b)  y = Gelu(s) }}''')
    feeds = {"x": np.ones([int(i) for i in xs.split(",")], np.float32), "b": np.ones([int(bs)], np.float32)}
    print("original:", run(m, feeds)[0].shape)
    fused, counts = ofo(m); print(counts)
    try: print("fused:", run(fused, feeds)[0].shape)
    except Exception as e: print("fused model rejected by ORT:", str(e)[-160:])
