"""rewriter/models/_rotary_embedding_models.py::test_case_2 (1-D position_ids) with batch size 2: cos_sin_cache unsqueezes
position_ids to [1,S]; com.microsoft.RotaryEmbedding requires [B,S] (or [1])."""
from common import *
from onnxscript import script, FLOAT, INT64
from onnxscript.onnx_opset import opset18 as op
@script()
def model(x: FLOAT[2, 4, 8, 8], position_ids: INT64[8]) -> FLOAT[2, 4, 8, 8]:
    inv_freq = op.Constant(value_floats=[1.0, 2.0, 3.0, 4.0])
    inv_freq_3d = op.Unsqueeze(inv_freq, [0, 2])
    position_ids_expanded = op.Unsqueeze(position_ids, [0, 1])
    position_ids_float = op.Cast(position_ids_expanded, to=1)
    freqs = op.MatMul(inv_freq_3d, position_ids_float)
    freqs = op.Transpose(freqs, perm=[0, 2, 1])
    emb = op.Concat(freqs, freqs, axis=-1)
    cos_4d = op.Unsqueeze(op.Cos(emb), [1]); sin_4d = op.Unsqueeze(op.Sin(emb), [1])
    x1 = op.Slice(x, [0], [4], [3], [1]); x2 = op.Slice(x, [4], [8], [3], [1])
    rotated_x = op.Concat(op.Neg(x2), x1, axis=-1)
    return op.Add(x * cos_4d, rotated_x * sin_4d)
m = model.to_model_proto()
feeds = {"x": (np.arange(2 * 4 * 8 * 8, dtype=np.float32).reshape(2, 4, 8, 8) % 7) / 7, "position_ids": np.arange(8, dtype=np.int64)}
print("original:", run(m, feeds)[0].shape)
fused, counts = ofo(m); print(counts)
try: print("fused:", run(fused, feeds)[0].shape)
except Exception as e: print("fused model rejected by ORT:", str(e)[-170:])
