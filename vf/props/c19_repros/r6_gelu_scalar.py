"""tanh-GELU of a 0-d tensor: fuse_gelu emits com.microsoft.FastGelu, which requires rank >= 1."""
from common import *
import math
m = onnx.parser.parse_model(f'''<ir_version: 10, opset_import: ["" : 18]>
g (float x) => (float y) {{
  three = Constant<value = float {{3.0}}>()  a = Constant<value = float {{0.044715}}>()
  b = Constant<value = float {{{math.sqrt(2/math.pi)!r}}}>()  one = Constant<value = float {{1.0}}>()  half = Constant<value = float {{0.5}}>()
  t1 = Pow(x, three)  t2 = Mul(a, t1)  t3 = Add(x, t2)  t4 = Mul(b, t3)  t5 = Tanh(t4)  t6 = Add(t5, one)  t7 = Mul(half, t6)
  y = Mul(x, t7)
}}''')
feeds = {"x": np.array(0.5, dtype=np.float32)}
print("original:", run(m, feeds)[0])
fused, counts = ofo(m); print(counts)
try: print("fused:", run(fused, feeds)[0])
except Exception as e: print("fused model rejected by ORT:", str(e)[-160:])
