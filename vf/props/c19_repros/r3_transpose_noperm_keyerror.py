"""Div(MatMul(Transpose(A) [rank 3, no perm], B), 2): Div1 -> FusedMatMul(Transpose(A), B, alpha); the
_TransposeFusedMatMulBaseWithBatch rules then read attributes["perm"] unconditionally -> KeyError."""
from common import *
m = onnx.parser.parse_model('''<ir_version: 10, opset_import: ["" : 18]>
g (float[3,2,5] A, float[5,3,4] B) => (float[5,2,4] Y) {
  c = Constant<value = float {2.0}>()
  At = Transpose(A)
  C = MatMul(At, B)
  Y = Div(C, c)
}''')
try:
    ofo(m); print("ok")
except Exception as e:
    print("optimize_for_ort raised:", chain(e))
