"""Root cause of the GQA mask finding: PatternBase.match returns a *falsy MatchResult* (not None) when the structure
does not match, so gqa.py's `if mask_match_result is None: fail(...)` never rejects a non-causal mask."""
from common import *
from onnxscript.rewriter.ort_fusions.gqa import _causal_mask_pattern
m = onnx.parser.parse_model('''<ir_version: 10, opset_import: ["" : 18]>
g (float[1,1,3,5] any_mask) => (float[1,1,3,5] mask) { one = Constant<value = float {1.0}>()  mask = Mul(any_mask, one) }''')
model = ir.serde.deserialize_model(m)
node = model.graph[1]
res = _causal_mask_pattern.match(model, model.graph, node, check_nodes_are_removable=False)
print("match result:", type(res).__name__, "bool:", bool(res), "is None:", res is None)
