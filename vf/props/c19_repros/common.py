import numpy as np, onnx, onnx.parser, onnxruntime as ort
import onnx_ir as ir
def run(model_proto, feeds):
    so = ort.SessionOptions(); so.graph_optimization_level = ort.GraphOptimizationLevel.ORT_DISABLE_ALL; so.log_severity_level = 4
    return ort.InferenceSession(model_proto.SerializeToString(), so, providers=["CPUExecutionProvider"]).run(None, feeds)
def ofo(model_proto):
    from onnxscript.rewriter.ort_fusions import optimize_for_ort
    m = ir.serde.deserialize_model(model_proto)
    m, counts = optimize_for_ort(m)
    return ir.serde.serialize_model(m), {k: v for k, v in counts.items() if v}

def chain(e):
    out = []
    while e is not None:
        out.append(f"{type(e).__name__}: {e}"[:160]); e = e.__cause__ or e.__context__
    return "  <-  ".join(out)
