"""attention_test.py::model_with_mha_past plus an attention_bias input: fuse_attention forwards both `past` and
`attention_bias` to com.microsoft.Attention, which refuses the combination."""
from common import *
from onnxscript.rewriter.ort_fusions.attention import fuse_attention
from onnxscript.optimizer import optimize
m = onnx.parser.parse_model('''<ir_version: 10, opset_import: ["" : 18, "com.microsoft" : 1]>
g (float[1,3,8] x, float[8,24] w, float[24] b, float[2,1,2,2,4] past, float[1,1,3,5] ab) => (float[1,3,8] y, float[2,1,2,5,4] present) {
  c0 = Constant<value = int64[1] {0}>()  c1 = Constant<value = int64[1] {1}>()  c2 = Constant<value = int64[1] {2}>()
  c8 = Constant<value = int64[1] {8}>()  c16 = Constant<value = int64[1] {16}>()  c24 = Constant<value = int64[1] {24}>()
  qkv = MatMul(x, w)
  q = Slice(qkv, c0, c8, c2)  k = Slice(qkv, c8, c16, c2)  v = Slice(qkv, c16, c24, c2)
  pk5 = Slice(past, c0, c1, c0)  pk = Squeeze(pk5, c0)  pv5 = Slice(past, c1, c2, c0)  pv = Squeeze(pv5, c0)
  y, prk, prv = com.microsoft.MultiHeadAttention<num_heads=2>(q, k, v, b, , ab, pk, pv)
  prk5 = Unsqueeze(prk, c0)  prv5 = Unsqueeze(prv, c0)
  present = Concat<axis=0>(prk5, prv5)
}''')
r = lambda *s: ((np.arange(int(np.prod(s))) * 7 % 11 - 5) / 20).reshape(s).astype(np.float32)
feeds = {"x": r(1, 3, 8), "w": r(8, 24), "b": r(24), "past": r(2, 1, 2, 2, 4), "ab": r(1, 1, 3, 5)}
print("original:", [o.shape for o in run(m, feeds)])
model = ir.serde.deserialize_model(m); optimize(model)
print("fuse_attention count:", fuse_attention(model))
try: print("fused:", [o.shape for o in run(ir.serde.serialize_model(model), feeds)])
except Exception as e: print("fused model rejected by ORT:", str(e)[-140:])
