"""GroupQueryAttention(Slice q, Slice k, Slice v, ..., scale=0.3): PackedQKVForGQAFusion matches nodes carrying
scale / softcap / local_window_size and rebuilds the node without them."""
from common import *
from onnx import helper as h, TensorProto as T
B, S, Hq, Hkv, Dh, P = 1, 3, 2, 1, 16, 2
Dq, Dkv = Hq * Dh, Hkv * Dh; D = Dq + 2 * Dkv; Tt = S + P
def sl(name, s, e):
    return [h.make_node("Constant", [], [name + "_s"], value=h.make_tensor("", T.INT64, [1], [s])),
            h.make_node("Constant", [], [name + "_e"], value=h.make_tensor("", T.INT64, [1], [e])),
            h.make_node("Slice", ["x", name + "_s", name + "_e", "ax", "st"], [name])]
nodes = [h.make_node("Constant", [], ["ax"], value=h.make_tensor("", T.INT64, [1], [2])),
         h.make_node("Constant", [], ["st"], value=h.make_tensor("", T.INT64, [1], [1]))]
nodes += sl("q", 0, Dq) + sl("k", Dq, Dq + Dkv) + sl("v", Dq + Dkv, D)
nodes.append(h.make_node("GroupQueryAttention", ["q", "k", "v", "pk", "pv", "seqlens_k", "total", "cos", "sin"],
                         ["y", "prk", "prv"], domain="com.microsoft", num_heads=Hq, kv_num_heads=Hkv, do_rotary=1,
                         rotary_interleaved=0, scale=0.3))
vi = h.make_tensor_value_info
g = h.make_graph(nodes, "g",
    [vi("x", T.FLOAT, [B, S, D]), vi("pk", T.FLOAT, [B, Hkv, P, Dh]), vi("pv", T.FLOAT, [B, Hkv, P, Dh]),
     vi("seqlens_k", T.INT32, [B]), vi("total", T.INT32, [1]), vi("cos", T.FLOAT, [Tt, Dh // 2]), vi("sin", T.FLOAT, [Tt, Dh // 2])],
    [vi("y", T.FLOAT, None), vi("prk", T.FLOAT, None), vi("prv", T.FLOAT, None)])
m = h.make_model(g, opset_imports=[h.make_opsetid("", 18), h.make_opsetid("com.microsoft", 1)], ir_version=10)
r = lambda *s: ((np.arange(int(np.prod(s))) * 7 % 11 - 5) / 20).reshape(s).astype(np.float32)
feeds = {"x": r(B, S, D), "pk": r(B, Hkv, P, Dh), "pv": r(B, Hkv, P, Dh) + 0.1, "seqlens_k": np.array([Tt - 1], np.int32),
         "total": np.array([Tt], np.int32), "cos": np.cos(r(Tt, Dh // 2)), "sin": np.sin(r(Tt, Dh // 2))}
a = run(m, feeds)[0]
fused, counts = ofo(m); print(counts, [(n.op_type, sorted(x.name for x in n.attribute)) for n in fused.graph.node if n.op_type == "GroupQueryAttention"])
b = run(fused, feeds)[0]
print("max abs difference:", float(np.abs(a - b).max()))
