"""Transpose(MatMul(Transpose(A), B)): TransposeMatMul1 gives FusedMatMul(A,B,transA=1); FusedMatMulTranspose then
flips transA/transB but also swaps the operands without swapping the flags -> FusedMatMul(B, A, transA=0, transB=1)."""
from common import *
m = onnx.parser.parse_model('''<ir_version: 10, opset_import: ["" : 18, "com.microsoft" : 1]>
g (float[3,2] A, float[3,4] B) => (float[4,2] Y) {
  At = Transpose<perm=[1,0]>(A)
  C = MatMul(At, B)
  Y = Transpose<perm=[1,0]>(C)
}''')
feeds = {"A": np.arange(6, dtype=np.float32).reshape(3, 2), "B": np.arange(12, dtype=np.float32).reshape(3, 4)}
print("original:", run(m, feeds)[0].shape)
fused, counts = ofo(m)
print([ (n.op_type, [(a.name, onnx.helper.get_attribute_value(a)) for a in n.attribute]) for n in fused.graph.node])
try:
    print("fused:", run(fused, feeds)[0])
except Exception as e:
    print("fused model rejected by ORT:", str(e)[:200])
