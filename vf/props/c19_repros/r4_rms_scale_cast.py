"""RMS norm computed in f32 on an f16 input with the f16 scale Cast to f32 (the OrValue([Cast(scale), scale]) branch
the rule supports explicitly): result is f32, but SimplifiedLayerNormalization(x f16, scale f16) yields f16."""
from common import *
m = onnx.parser.parse_model('''<ir_version: 10, opset_import: ["" : 18]>
g (float16[2,3,4] x, float16[4] scale) => (float[2,3,4] y) {
  two = Constant<value = float {2.0}>()
  eps = Constant<value = float[1] {0.000001}>()
  axes = Constant<value = int64[1] {-1}>()
  xf = Cast<to=1>(x)
  sq = Pow(xf, two)
  mean = ReduceMean<keepdims=1, noop_with_empty_axes=0>(sq, axes)
  mpe = Add(mean, eps)
  rms = Sqrt(mpe)
  rr = Reciprocal(rms)
  n = Mul(xf, rr)
  sf = Cast<to=1>(scale)
  y = Mul(n, sf)
}''')
feeds = {"x": np.arange(24, dtype=np.float16).reshape(2, 3, 4) / 8, "scale": np.ones(4, np.float16)}
print("original:", run(m, feeds)[0].dtype)
fused, counts = ofo(m); print(counts)
try:
    print("fused:", run(fused, feeds)[0].dtype)
except Exception as e:
    print("fused model rejected by ORT:", str(e)[:250])
