"""MultiHeadAttention(Add(q, bq[1,1,D]), k, v): FuseBiasMHA never checks the bias shapes; it Concat's them on axis 0 and
passes the result as MHA's `bias`, which must be 1-D of length 2*hidden+v_hidden."""
from common import *
from onnxscript.rewriter.ort_fusions.mha_bias import fuse_mha_bias
from onnxscript.optimizer import optimize
m = onnx.parser.parse_model('''<ir_version: 10, opset_import: ["" : 18, "com.microsoft" : 1]>
g (float[1,3,8] q, float[1,3,8] k, float[1,3,8] v) => (float[1,3,8] y)
<float[1,1,8] bq = {0.1,0.2,0.3,0.4,0.5,0.6,0.7,0.8}> {
  qb = Add(q, bq)
  y = com.microsoft.MultiHeadAttention<num_heads=2>(qb, k, v)
}''')
x = (np.arange(24, dtype=np.float32).reshape(1, 3, 8) % 5 - 2) / 4
feeds = {"q": x, "k": x + 0.5, "v": x - 0.25}
print("original:", run(m, feeds)[0].shape)
model = ir.serde.deserialize_model(m); optimize(model)
print("fuse_mha_bias count:", fuse_mha_bias(model))
try: print("fused:", run(ir.serde.serialize_model(model), feeds)[0].shape)
except Exception as e: print("fused model rejected by ORT:", str(e)[-200:])
