"""Div(MatMul(A,B), c) with c a single-element constant of rank >= 2 ([[2.0]]): FusedMatMulDiv1.rewrite does
float(value) on a 2-D array -> TypeError aborts optimize_for_ort (the check only tests value.size > 1)."""
from common import *
m = onnx.parser.parse_model('''<ir_version: 10, opset_import: ["" : 18]>
g (float[2,3] A, float[3,4] B) => (float[2,4] Y) {
  c = Constant<value = float[1,1] {2.0}>()
  C = MatMul(A, B)
  Y = Div(C, c)
}''')
try:
    ofo(m); print("ok")
except Exception as e:
    print("optimize_for_ort raised:", chain(e))
