"""C05 helper: small numpy specifications written from the ONNX operator documentation.

Used only to ADMIT an original model when onnx.reference cannot serve as the second opinion (its Conv
mishandles auto_pad; it rejects size-0 Flatten): the original is admitted when ORT agrees with this spec.
"""
from __future__ import annotations

import itertools
import math

import numpy as np


def conv_pads(in_sp, k_sp, strides, dilations, auto_pad, pads):
    ns = len(in_sp)
    if auto_pad in (None, "NOTSET"):
        return list(pads) if pads is not None else [0] * (2 * ns)
    if auto_pad == "VALID":
        return [0] * (2 * ns)
    b, e = [], []
    for i in range(ns):
        out = math.ceil(in_sp[i] / strides[i])
        keff = (k_sp[i] - 1) * dilations[i] + 1
        total = max((out - 1) * strides[i] + keff - in_sp[i], 0)
        small = total // 2
        if auto_pad == "SAME_UPPER":
            b.append(small)
            e.append(total - small)
        else:
            b.append(total - small)
            e.append(small)
    return b + e


def conv(x, w, bias=None, strides=None, dilations=None, pads=None, group=1, auto_pad=None, acc=np.float64):
    """N-d cross-correlation per the ONNX Conv definition.  x [N,C,*sp], w [M,C/g,*k]."""
    ns = x.ndim - 2
    strides = list(strides or [1] * ns)
    dilations = list(dilations or [1] * ns)
    p = conv_pads(x.shape[2:], w.shape[2:], strides, dilations, auto_pad, pads)
    xp = np.pad(x.astype(acc), [(0, 0), (0, 0)] + [(p[i], p[i + ns]) for i in range(ns)])
    N, C = x.shape[:2]
    M = w.shape[0]
    out_sp = [(xp.shape[2 + i] - ((w.shape[2 + i] - 1) * dilations[i] + 1)) // strides[i] + 1 for i in range(ns)]
    if any(o <= 0 for o in out_sp):
        return None
    y = np.zeros([N, M] + out_sp, dtype=acc)
    cg = C // group
    mg = M // group
    wa = w.astype(acc)
    for m in range(M):
        g = m // mg
        for kpos in itertools.product(*[range(k) for k in w.shape[2:]]):
            sl = [slice(None), slice(g * cg, (g + 1) * cg)]
            for i in range(ns):
                st = kpos[i] * dilations[i]
                sl.append(slice(st, st + (out_sp[i] - 1) * strides[i] + 1, strides[i]))
            patch = xp[tuple(sl)]                      # [N, cg, *out]
            wk = wa[(m, slice(None)) + kpos]           # [cg]
            y[:, m] += np.tensordot(patch, wk, axes=([1], [0]))
    if bias is not None:
        y += bias.astype(acc).reshape([1, M] + [1] * ns)
    return y


def conv_integer(x, w, xzp=0, wzp=0, **kw):
    """ConvInteger: zero points are subtracted first, so padding contributes (0) to the sum."""
    ns = x.ndim - 2
    strides = list(kw.get("strides") or [1] * ns)
    dilations = list(kw.get("dilations") or [1] * ns)
    p = conv_pads(x.shape[2:], w.shape[2:], strides, dilations, kw.get("auto_pad"), kw.get("pads"))
    xs = x.astype(np.int64) - int(xzp)
    ws = w.astype(np.int64) - int(wzp)
    y = conv(xs, ws, None, strides, dilations, p, kw.get("group", 1), None, acc=np.int64)
    return None if y is None else y.astype(np.int32)


def flatten(x, axis):
    r = x.ndim
    if axis < 0:
        axis += r
    a = int(np.prod(x.shape[:axis])) if axis > 0 else 1
    b = int(np.prod(x.shape[axis:])) if axis < r else 1
    return x.reshape(a, b)


def conv_transpose(x, w, bias=None, strides=None, dilations=None, pads=None, group=1, output_padding=None,
                   output_shape=None, acc=np.float64):
    """ConvTranspose per the ONNX definition.  x [N,C,*sp], w [C, M/g, *k]."""
    ns = x.ndim - 2
    strides = list(strides or [1] * ns)
    dilations = list(dilations or [1] * ns)
    opad = list(output_padding or [0] * ns)
    pads = list(pads or [0] * (2 * ns))
    N, C = x.shape[:2]
    mg = w.shape[1]
    M = mg * group
    cg = C // group
    k = w.shape[2:]
    full = [(x.shape[2 + i] - 1) * strides[i] + (k[i] - 1) * dilations[i] + 1 for i in range(ns)]
    if output_shape is not None:
        # total padding so that the output has the requested size (auto_pad NOTSET: split begin = total//2)
        pads = [0] * (2 * ns)
        for i in range(ns):
            total = full[i] + opad[i] - output_shape[i]
            if total < 0:
                opad[i] += -total
                total = 0
            pads[i] = total // 2
            pads[i + ns] = total - total // 2
    out = [full[i] + opad[i] for i in range(ns)]
    y = np.zeros([N, M] + out, dtype=acc)
    xa = x.astype(acc)
    wa = w.astype(acc)
    for g in range(group):
        for c in range(cg):
            ci = g * cg + c
            for m in range(mg):
                mo = g * mg + m
                for kpos in itertools.product(*[range(kk) for kk in k]):
                    sl = [slice(None), mo]
                    for i in range(ns):
                        st = kpos[i] * dilations[i]
                        sl.append(slice(st, st + (x.shape[2 + i] - 1) * strides[i] + 1, strides[i]))
                    y[tuple(sl)] += xa[:, ci] * wa[(ci, m) + kpos]
    crop = [slice(None), slice(None)]
    for i in range(ns):
        end = out[i] - pads[i + ns]
        crop.append(slice(pads[i], end))
    y = y[tuple(crop)]
    if any(s <= 0 for s in y.shape[2:]):
        return None
    if bias is not None:
        y = y + bias.astype(acc).reshape([1, M] + [1] * ns)
    return y


def batchnorm(y, scale, b, mean, var, eps=1e-5):
    sh = [1, -1] + [1] * (y.ndim - 2)
    f = np.float64
    return scale.astype(f).reshape(sh) * (y - mean.astype(f).reshape(sh)) / np.sqrt(var.astype(f).reshape(sh) + eps) + b.astype(f).reshape(sh)
