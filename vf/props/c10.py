"""C10 - opset version conversion yields a valid, equivalent model at the target version (or leaves it alone).

Choice-tree enumeration of (focus op, source opset s, target t, entry form / API, fallback, placement,
initializer layout, op parameters); every leaf builds a model with onnx.helper (vf/props/c10_models.py), calls the
real ``onnxscript.version_converter`` entry point and checks the either/or oracle of DESIGN "### C10".

Leaves that share the model and the target are executed together (one item = one (model, t) with all
entry x API x fallback sub-cases) so the original model is admitted once; every sub-case is still a leaf of the
explorer and is counted as an evaluation.
"""
from __future__ import annotations

import json
import logging

import numpy as np
import onnx

from vf import explore, wf
from vf.props import c10_models as M

ID = "C10"
LEVEL = "model_checking"
RULE = ("choice tree: op x s x t x (entry, API) x fallback exhaustive (cost 0); placement, initializer layout and "
        "every op parameter are deviation dimensions (cost 1, entry 0 = the adapter-firing default) explored to "
        "the tier's bound; a leaf = one call of the real converter on a freshly built model; distinct_nontrivial "
        "= distinct (model, t, entry, API, fallback) leaves whose result reached the oracle (declared/unchanged "
        "classification, checker, wf, signature, initializers, ORT + onnx.reference equivalence)")
ASSUMPTIONS = [
    "onnx 1.22 checker/schemas, onnxruntime 1.30 CPU (ORT_DISABLE_ALL) and onnx.reference define validity and "
    "'what a model computes'; ORT 1.30 loads every opset 18..25 so ORT is used for every t, the reference "
    "evaluator additionally whenever it can run the original",
    "onnx_ir (site-packages) serde / InlinePass are trusted: ir.from_proto/to_proto round trip is used to "
    "normalise the input so that 'unchanged' can be decided byte-for-byte",
    "GroupNormalization at opset 18..20 is rejected by the onnx checker as deprecated; such originals are kept "
    "(the adapter exists for them) and the same checker message is excused on a result below 21",
    "convert_version(ModelProto) is in-place by its code comment and returns None: the property is required of "
    "the proto object the caller passed",
]

ENTRIES = [["ir", "fn"], ["proto", "fn"], ["ir", "pass"], ["ir", "torch29"]]
FALLBACKS = [None, False, True]

# quick: t-s in {0, 1, max} for the sources that still have adapters ahead of them, the two exact boundary
# crossings in both directions, one non-crossing down pair and the full-range down pair
QUICK_PAIRS = [(18, 18), (18, 19), (18, 25), (19, 20), (19, 21), (20, 20), (20, 21), (20, 25),
               (21, 25), (20, 19), (21, 20), (25, 18), (23, 21)]
ALL_PAIRS = [(s, t) for s in range(18, 26) for t in range(18, 26)]


# ------------------------------------------------------------------------------------------------------------
# enumeration
# ------------------------------------------------------------------------------------------------------------


def _wf_scoped(model):
    """vf.wf with the name rule of ONNX itself (what onnx.checker and ORT implement): a name must be unique within its
    graph, and a subgraph must not redefine a name that is VISIBLE where its node stands (inputs, initializers and outputs
    of preceding nodes of the enclosing graphs).  vf.wf's global single-assignment rule also rejects a name used inside
    a subgraph and again LATER in the enclosing graph; the statement of C10 asks for a checker-valid, equivalent model,
    not for that (a thorough-tier false alarm: adapter constants named val_5/val_6 inside an If branch, the outer graph
    defining val_5/val_6 after the If; checker and ORT accept the model and the results are equal)."""
    out = [p for p in wf.check_model(model)
           if "defined more than once" not in p and "redefines an outer name" not in p and "redefines an existing name" not in p]

    def walk(g, visible, path):
        local = set()

        def define(n, what):
            if not n:
                return
            if n in local:
                out.append(f"{path}: value '{n}' defined twice in one graph ({what})")
            elif n in visible:
                out.append(f"{path}: value '{n}' redefines a name visible from the enclosing graph ({what})")
            local.add(n)
        in_names = {i.name for i in g.input}
        for i in g.input:
            define(i.name, "input")
        for t in g.initializer:
            if t.name not in in_names:
                define(t.name, "initializer")
        for n in g.node:
            for a in n.attribute:
                if a.type == onnx.AttributeProto.GRAPH:
                    walk(a.g, visible | local, f"{path}/{n.op_type}.{a.name}")
                elif a.type == onnx.AttributeProto.GRAPHS:
                    for j, sg in enumerate(a.graphs):
                        walk(sg, visible | local, f"{path}/{n.op_type}.{a.name}[{j}]")
            for o in n.output:
                define(o, "node output")
    walk(model.graph, set(), "graph")
    for f in model.functions:
        fg = onnx.GraphProto()
        fg.node.extend(f.node)
        for nm in f.input:
            fg.input.add().name = nm
        walk(fg, set(), f"function {f.name}")
    return out


def _mk_driver(pairs):
    def driver(ch):
        op = ch.all("op", M.FOCUS_OPS)
        s, t = ch.all("s_t", pairs)
        entry, api = ch.all("entry_api", ENTRIES)
        if api == "torch29":
            fb = ch.all("fallback", [True])
        elif api == "pass":
            fb = ch.all("fallback", ["default", False, True])
        else:
            fb = ch.all("fallback", FALLBACKS)
        place = ch.choose("place", M.PLACES)
        inits = ch.choose("inits", M.INITS)
        cfg = {}
        if op == "DFT":
            cfg["axis"] = ch.choose("dft.axis", M.DFT_AXIS)
            cfg["kind"] = ch.choose("dft.kind", M.DFT_KIND)
            cfg["len"] = ch.choose("dft.len", M.DFT_LEN)
            cfg["rank"] = ch.choose("dft.rank", M.DFT_RANK)
            if s >= 20 and cfg["axis"] != "absent":
                cfg["axis_src"] = ch.choose("dft.axis_src", M.DFT_AXIS_SRC)
        elif op == "GridSample":
            cfg["mode"] = ch.choose("gs.mode", M.GS_MODE_OLD if s < 20 else M.GS_MODE_NEW)
            cfg["pad"] = ch.choose("gs.pad", M.GS_PAD)
            cfg["align"] = ch.choose("gs.align", M.GS_ALIGN)
        elif op == "GroupNormalization":
            cfg["groups"] = ch.choose("gn.groups", M.GN_GROUPS)
            cfg["xshape"] = ch.choose("gn.xshape", M.GN_XSHAPE)
            cfg["scale_src"] = ch.choose("gn.scale_src", M.GN_SCALE_SRC)
        spec = {"op": op, "s": s, "place": place, "inits": inits, "cfg": cfg}
        names = ch.choose("names", M.NAMES)
        if names != "plain":
            spec["names"] = names
        if not M.valid_spec(spec):
            raise explore.Prune()
        return {"spec": spec, "t": t, "sub": [entry, api, fb]}
    return driver


def plan(tier, seed):
    # quick: the 13 adapter-relevant pairs at bound 2.  thorough: the same pairs at bound 3 and the other 51
    # pairs of 18..25 x 18..25 at bound 2 (their conversions are compositions of the former).
    if tier == "quick":
        runs = [(QUICK_PAIRS, 2)]
    else:
        runs = [(QUICK_PAIRS, 3), ([p for p in ALL_PAIRS if p not in QUICK_PAIRS], 2)]
    groups = {}
    order = []
    tot = dict(states=0, transitions=0, leaves=0, pruned=0)
    dims = {}
    capped = False
    per_run = []
    for pairs, bound in runs:
        st = explore.Stats()
        for _, leaf in explore.explore(_mk_driver(pairs), bound=bound, stats=st):
            k = json.dumps([leaf["spec"], leaf["t"]], sort_keys=True)
            g = groups.get(k)
            if g is None:
                g = groups[k] = {"spec": leaf["spec"], "t": leaf["t"], "subs": []}
                order.append(k)
            g["subs"].append(leaf["sub"])
        for k in tot:
            tot[k] += getattr(st, k)
        capped = capped or st.capped
        for k, v in st.dim_hist.items():
            dims.setdefault(k, set()).update(v)
        per_run.append({"s_t_pairs": len(pairs), "bound": bound, "leaves": st.leaves, "states": st.states})
    items = [groups[k] for k in order]
    d = dict(tot)
    d["capped"] = capped
    d["bound"] = min(b for _, b in runs)
    d["exhaustive"] = not capped
    d["dimensions"] = {k: len(v) for k, v in dims.items()}
    d["dimensions"]["s_t"] = sum(len(p) for p, _ in runs)   # the runs enumerate disjoint pair lists
    d["model_target_groups"] = len(items)
    d["enumeration_runs"] = per_run
    return items, d


# ------------------------------------------------------------------------------------------------------------
# oracle helpers (none of this uses onnxscript.version_converter)
# ------------------------------------------------------------------------------------------------------------

_LOG = []


class _Capture(logging.Handler):
    def emit(self, record):
        try:
            _LOG.append(record.getMessage()[:200])
        except Exception:  # noqa: BLE001
            _LOG.append("?")


def worker_init(arg):
    lg = logging.getLogger("onnxscript")
    lg.handlers[:] = [_Capture()]
    lg.propagate = False
    logging.getLogger("onnx_ir").handlers[:] = [_Capture()]
    logging.getLogger("onnx_ir").propagate = False


def _declared(proto):
    """-> version declared for the default domain, or ('conflict', ...)"""
    vs = [o.version for o in proto.opset_import if o.domain in ("", "ai.onnx")]
    if not vs:
        return None
    if len(set(vs)) > 1:
        return ("conflict", sorted(vs))
    return vs[0]


def _with_opset(proto, t):
    p = onnx.ModelProto()
    p.CopyFrom(proto)
    keep = [o for o in p.opset_import if o.domain not in ("", "ai.onnx")]
    del p.opset_import[:]
    p.opset_import.add(domain="", version=t)
    for o in keep:
        p.opset_import.add(domain=o.domain, version=o.version)
    for f in p.functions:
        keepf = [o for o in f.opset_import if o.domain not in ("", "ai.onnx")]
        del f.opset_import[:]
        f.opset_import.add(domain="", version=t)
        for o in keepf:
            f.opset_import.add(domain=o.domain, version=o.version)
    return p


def _checker(proto):
    try:
        onnx.checker.check_model(proto, full_check=True)
        return None
    except Exception as e:  # noqa: BLE001
        return f"{type(e).__name__}: {str(e)[:300]}"


def _ort_session(b):
    import onnxruntime as o
    so = o.SessionOptions()
    so.graph_optimization_level = o.GraphOptimizationLevel.ORT_DISABLE_ALL
    so.log_severity_level = 4
    so.intra_op_num_threads = 1
    so.inter_op_num_threads = 1
    return o.InferenceSession(b, so, providers=["CPUExecutionProvider"])


def _run_ort(b, feeds_list):
    """-> (list of outputs per feed | None, error).  Overridable initializers are fed when present in feeds."""
    from vf import runeq
    runeq.ort()
    try:
        sess = _ort_session(b)
    except Exception as e:  # noqa: BLE001
        return None, "load: " + str(e)[:300]
    names = {i.name for i in sess.get_inputs()} | {i.name for i in sess.get_overridable_initializers()}
    outs = []
    for f in feeds_list:
        try:
            outs.append(sess.run(None, {k: v for k, v in f.items() if k in names}))
        except Exception as e:  # noqa: BLE001
            return None, "run: " + str(e)[:300]
    return outs, None


def _run_ref(proto, feeds_list):
    from onnx.reference import ReferenceEvaluator
    last = None
    for attempt in (0, 1):
        try:
            p = proto if attempt == 0 else onnx.shape_inference.infer_shapes(proto)
            ev = ReferenceEvaluator(p)
            break
        except Exception as e:  # noqa: BLE001
            last = "load: " + str(e)[:300]
    else:
        return None, last
    names = set(ev.input_names)
    outs = []
    for f in feeds_list:
        try:
            outs.append(ev.run(None, {k: v for k, v in f.items() if k in names}))
        except Exception as e:  # noqa: BLE001
            return None, "run: " + str(e)[:300]
    return outs, None


def _cmp_runs(a, b, loose=1.0):
    from vf import runeq
    for i, (x, y) in enumerate(zip(a, b)):
        d = runeq.compare(x, y, loose)
        if d:
            return f"feed {i}: {d}"
    return None


def _init_table(graph, path="", out=None):
    """(path, name) -> serialized tensor, for the graph and its subgraphs."""
    out = {} if out is None else out
    for t in graph.initializer:
        out[(path, t.name)] = t.SerializeToString()
    for i, n in enumerate(graph.node):
        for a in n.attribute:
            if a.type == onnx.AttributeProto.GRAPH:
                _init_table(a.g, f"{path}/{n.op_type}.{a.name}", out)
            elif a.type == onnx.AttributeProto.GRAPHS:
                for j, g in enumerate(a.graphs):
                    _init_table(g, f"{path}/{n.op_type}.{a.name}[{j}]", out)
    return out


def _used_names(graph, acc):
    for n in graph.node:
        acc.update(i for i in n.input if i)
        for a in n.attribute:
            if a.type == onnx.AttributeProto.GRAPH:
                _used_names(a.g, acc)
            elif a.type == onnx.AttributeProto.GRAPHS:
                for g in a.graphs:
                    _used_names(g, acc)
    acc.update(o.name for o in graph.output)
    return acc


def _sig(graph):
    return ([v.SerializeToString() for v in graph.input], [v.SerializeToString() for v in graph.output])


def _dims(v):
    tt = v.type.tensor_type
    if not tt.HasField("shape"):
        return None
    return [d.dim_value if d.HasField("dim_value") else (d.dim_param or None) for d in tt.shape.dim]


def _sig_problems(bg, ag, orig):
    """Inputs must be kept exactly (name, order, type, shape).  Outputs: same names, order and element type; a
    declared output dimension may only be *refined* (unknown -> symbol or value), and a concrete value must be
    the dimension actually observed when the original runs."""
    out = []
    if [v.SerializeToString() for v in bg.input] != [v.SerializeToString() for v in ag.input]:
        out.append("graph inputs differ")
    if [v.name for v in bg.output] != [v.name for v in ag.output]:
        out.append("graph output names differ")
        return out
    for i, (b, a) in enumerate(zip(bg.output, ag.output)):
        if b.type.WhichOneof("value") != a.type.WhichOneof("value") or \
                b.type.tensor_type.elem_type != a.type.tensor_type.elem_type:
            out.append(f"output {b.name}: type changed")
            continue
        bd, ad = _dims(b), _dims(a)
        if bd == ad:
            continue
        if ad is None or bd is None:
            if bd is not None:
                out.append(f"output {b.name}: shape {bd} dropped")
            continue
        if len(bd) != len(ad):
            out.append(f"output {b.name}: rank {len(bd)} -> {len(ad)}")
            continue
        for k, (x, y) in enumerate(zip(bd, ad)):
            if isinstance(x, int) and x != y:
                out.append(f"output {b.name}: dim {k} {x} -> {y}")
            elif isinstance(x, str) and x != y and not isinstance(y, int):
                out.append(f"output {b.name}: symbolic dim {k} {x} -> {y}")
            if isinstance(y, int) and not isinstance(x, int) and orig.get("ort") is not None:
                seen = {tuple(np.asarray(o[i]).shape)[k] for o in orig["ort"]}
                if seen != {y}:
                    out.append(f"output {b.name}: dim {k} declared {y} but the original produces {sorted(seen)}")
    return out


def _sig_text(graph):
    def one(v):
        tt = v.type.tensor_type
        dims = [d.dim_param or (d.dim_value if d.HasField("dim_value") else "?") for d in tt.shape.dim] \
            if tt.HasField("shape") else None
        return f"{v.name}:{tt.elem_type}{dims}"
    return [one(v) for v in graph.input], [one(v) for v in graph.output]


def _cls(op, s, t):
    if s == t:
        return "same"
    b = {"DFT": 20, "GridSample": 20, "GroupNormalization": 21}.get(op)
    if s < t:
        return "up-cross" if (b is not None and s < b <= t) else "up"
    return "down-cross" if (b is not None and t < b <= s) else "down"


def _cls_any(s, t):
    return "same" if s == t else ("up" if s < t else "down")


_ORIG_CACHE = {}


def _original(spec):
    """Build + normalise + admit the original once per worker and spec."""
    from onnxscript import ir  # alias of onnx_ir
    k = json.dumps(spec, sort_keys=True)
    hit = _ORIG_CACHE.get(k)
    if hit is not None:
        return hit
    raw, feeds = M.build(spec)
    base = ir.to_proto(ir.from_proto(raw))
    bb = base.SerializeToString()
    again = ir.to_proto(ir.from_proto(base)).SerializeToString()
    info = {"proto": base, "bytes": bb, "feeds": feeds, "fixpoint": again == bb}
    info["checker"] = _checker(base)
    info["wf"] = _wf_scoped(base)
    o, oerr = _run_ort(bb, feeds)
    r, rerr = _run_ref(base, feeds)
    info["ort"], info["ort_err"], info["ref"], info["ref_err"] = o, oerr, r, rerr
    if o is not None and r is not None:
        info["disagree"] = _cmp_runs(o, r, loose=10.0)
    else:
        info["disagree"] = None
    # what "unchanged apart from the documented inlining" looks like (onnx_ir passes, not onnxscript)
    if base.functions:
        import onnx_ir.passes.common as cp
        m = ir.from_proto(base)
        ir.passes.Sequential(cp.InlinePass(), cp.RemoveUnusedFunctionsPass(), cp.RemoveUnusedOpsetsPass())(m)
        ip = ir.to_proto(m)
        # ir.Model entry: the whole model is re-serialised; ModelProto entry: only graph + functions are replaced
        pp = onnx.ModelProto()
        pp.CopyFrom(base)
        del pp.functions[:]
        pp.graph.CopyFrom(ip.graph)
        info["inlined_bytes"] = (ip.SerializeToString(), pp.SerializeToString())
    else:
        info["inlined_bytes"] = ()
    if len(_ORIG_CACHE) > 64:
        _ORIG_CACHE.clear()
    _ORIG_CACHE[k] = info
    return info


def _node_versions(model):
    """ir.Model -> sorted list of distinct node.version values of default-domain nodes (graph, subgraphs, functions)."""
    from onnxscript import ir
    seen = set()
    roots = [model.graph] + list(model.functions.values())
    for root in roots:
        for node in ir.traversal.RecursiveGraphIterator(root):
            if node.domain in ("", "ai.onnx"):
                seen.add(node.version)
    return seen


def _call(sub, base_bytes, t):
    """Run the real code.  -> dict(after=ModelProto, exc=str|None, versions=set|None, returned=...)"""
    from onnxscript import ir, version_converter
    entry, api, fb = sub
    proto = onnx.ModelProto()
    proto.ParseFromString(base_bytes)
    del _LOG[:]
    exc = None
    versions = None
    extra = {}
    if entry == "proto":
        try:
            ret = version_converter.convert_version(proto, t, fallback=fb)
            if ret is not None:
                extra["returned"] = type(ret).__name__
                if isinstance(ret, onnx.ModelProto):
                    proto = ret
        except Exception as e:  # noqa: BLE001  (a refusal; judged by what it left behind)
            exc = f"{type(e).__name__}: {str(e)[:160]}"
        after = proto
    else:
        model = ir.from_proto(proto)
        try:
            if api == "fn":
                version_converter.convert_version(model, t, fallback=fb)
            elif api == "pass":
                p = (version_converter.ConvertVersionPass(t) if fb == "default"
                     else version_converter.ConvertVersionPass(t, fallback=fb))
                res = p(model)
                if res.model is not model:
                    extra["pass_returned_other_model"] = True
                    model = res.model
                extra["modified"] = bool(res.modified)
            elif api == "torch29":
                from onnxscript._framework_apis import torch_2_9
                r = torch_2_9.convert_version(model, t)
                if r is not model:
                    extra["torch29_returned_other_model"] = True
                    model = r
            else:
                raise AssertionError(api)
        except Exception as e:  # noqa: BLE001
            exc = f"{type(e).__name__}: {str(e)[:160]}"
        after = ir.to_proto(model)
        versions = _node_versions(model)
    return {"after": after, "exc": exc, "versions": versions, "extra": extra, "log": list(_LOG)}


def _judge_result(orig, after, t, op, s):
    """Validity + signature + initializers + equivalence of a changed result that is taken to be at opset t.
    -> list of (kind, detail); cached by the caller per distinct bytes."""
    out = []
    ck = _checker(after)
    if ck is not None:
        excused = (orig["checker"] is not None and "deprecated" in orig["checker"] and "deprecated" in ck
                   and op == "GroupNormalization" and t < 21)
        if not excused:
            out.append(("checker", {"error": ck, "original_checker": orig["checker"]}))
    problems = _wf_scoped(after)
    if problems and not orig["wf"]:
        out.append(("wf", {"problems": problems[:5]}))
    base = orig["proto"]
    sp = _sig_problems(base.graph, after.graph, orig)
    if sp:
        out.append(("signature", {"problems": sp, "before": _sig_text(base.graph), "after": _sig_text(after.graph)}))
    # initializers: an original initializer may vanish only when nothing in the result refers to its name any
    # more (e.g. an operand folded into an attribute); one that is still referred to must be there, unaltered
    bi, ai = _init_table(base.graph), _init_table(after.graph)
    used = _used_names(after.graph, set())
    by_name = {}
    for (p, n), v in ai.items():
        by_name.setdefault(n, []).append(v)
    lost = []
    for (p, n), v in bi.items():
        if p == "":
            if ai.get(("", n)) != v and (n in used or ("", n) in ai):
                lost.append(n)
        elif n in used and v not in by_name.get(n, []):
            lost.append(p + ":" + n)
    if lost:
        out.append(("initializers", {"lost_or_altered": lost}))
    # equivalence
    feeds = orig["feeds"]
    ab = after.SerializeToString()
    if orig["ort"] is not None and not orig["disagree"]:
        o, err = _run_ort(ab, feeds)
        if o is None:
            out.append(("not-runnable", {"runtime": "onnxruntime", "error": err}))
        else:
            d = _cmp_runs(orig["ort"], o)
            if d:
                out.append(("not-equivalent", {"runtime": "onnxruntime", "diff": d}))
        if orig["ref"] is not None:
            r, err = _run_ref(after, feeds)
            if r is None:
                if o is None:
                    pass  # already reported
                else:
                    out.append(("ref-not-runnable", {"runtime": "onnx.reference", "error": err}))
            else:
                d = _cmp_runs(orig["ref"], r)
                if d and not any(k == "not-equivalent" for k, _ in out):
                    out.append(("not-equivalent", {"runtime": "onnx.reference", "diff": d}))
    return out


def _short(proto):
    try:
        txt = onnx.printer.to_text(proto)
    except Exception:  # noqa: BLE001
        txt = str(proto)
    return txt[:1500]


def execute(item):
    spec, t, subs = item["spec"], item["t"], item["subs"]
    op, s = spec["op"], spec["s"]
    orig = _original(spec)
    counts = {}
    viols = {}
    outcomes = []
    nkeys = []
    mkey = json.dumps(spec, sort_keys=True)

    def bump(k, n=1):
        counts[k] = counts.get(k, 0) + n

    def bad(kind, entry, opname, cls, detail, sub):
        key = f"C10|{kind}|{entry}|{opname}|{cls}"
        if key not in viols:
            viols[key] = {"key": key, "detail": dict(detail, sub=sub, spec=spec, t=t), "n": 0}
        viols[key]["n"] += 1

    if not orig["fixpoint"]:
        return {"status": "skip", "skip": "ir-roundtrip-not-a-fixpoint", "outcome": "skip"}
    equiv_possible = orig["ort"] is not None and not orig["disagree"]
    if orig["ort"] is None:
        bump("orig_not_runnable_on_ort")
    elif orig["disagree"]:
        bump("skipped_oracle_disagreement")
    elif orig["ref"] is None:
        bump("admitted_ort_only")
    else:
        bump("admitted_ort_and_ref")
    if orig["checker"] is not None:
        if not (op == "GroupNormalization" and s < 21 and "deprecated" in orig["checker"]):
            return {"status": "skip", "skip": "original-fails-checker", "outcome": "skip",
                    "show": orig["checker"][:300]}
        bump("orig_checker_deprecated_groupnorm")

    judged = {}
    shown = None
    by_sub = {}
    subs = sorted(subs, key=lambda x: x[0] != "ir")   # ir.Model subs first: the proto subs look at their sibling
    for sub in subs:
        entry, api, fb = sub
        form = "ModelProto" if entry == "proto" else "ir.Model"
        r = _call(sub, orig["bytes"], t)
        after = r["after"]
        ab = after.SerializeToString()
        unchanged = ab == orig["bytes"]
        raised = r["exc"] is not None
        decl = _declared(after)
        fdecl = sorted({str(_declared(f)) for f in after.functions})
        if not unchanged:
            nkeys.append(f"{mkey}|{t}|{entry}|{api}|{fb}")
        if any("Skipping version conversion" in m for m in r["log"]):
            bump("adapter_error_logged")
        if any("C API" in m and "Failed" in m for m in r["log"]):
            bump("c_api_failed_logged")
        if r["extra"].get("returned"):
            bump("proto_entry_returned_value")

        # in-memory node versions must not contradict the declared opset (ir.Model entry only)
        ver_conflict = None
        if r["versions"] is not None and not isinstance(decl, tuple):
            wrong = sorted(v for v in r["versions"] if v is not None and v != decl)
            if wrong:
                ver_conflict = wrong

        if unchanged:
            if ver_conflict:
                bad("node-version", form, op, _cls(op, s, t),
                    {"declared": decl, "node_versions": ver_conflict, "exc": r["exc"],
                     "what": "serialization unchanged but in-memory node versions contradict the declared opset"}, sub)
                oc = "unchanged-but-node-versions-moved"
            elif s == t:
                oc = "noop-same-version"
            elif raised:
                oc = "refused-raised-unchanged"
            else:
                oc = "refused-silently-unchanged"
            outcomes.append(oc)
            bump("oc:" + oc)
            by_sub[json.dumps(sub)] = oc
            continue

        # changed.  A refusal must not change anything.
        if raised:
            if ab in orig["inlined_bytes"] and not ver_conflict:
                bad("changed-on-refusal", form, "any", _cls_any(s, t),
                    {"exc": r["exc"], "what": "the call raised but the caller's model had its functions inlined "
                     "and removed (otherwise untouched)"}, sub)
                oc = "refused-raised-but-inlined"
            else:
                bad("half-converted", form, op, _cls(op, s, t),
                    {"exc": r["exc"], "declared": str(decl), "node_versions": ver_conflict,
                     "after": _short(after)}, sub)
                oc = "refused-raised-but-changed"
            outcomes.append(oc)
            bump("oc:" + oc)
            continue

        inlined_only = ab in orig["inlined_bytes"]
        consistent = True
        if decl != t:
            consistent = False
            sib = by_sub.get(json.dumps(["ir", api, fb])) if entry == "proto" else None
            if inlined_only and s != t and sib not in ("converted", "mixture"):
                # not converted at all (e.g. the C API gave up) but the functions are gone
                bad("changed-on-refusal", form, "any", _cls_any(s, t),
                    {"exc": None, "log": r["log"][:2], "what": "no conversion happened (silent no-op) but the "
                     "caller's model had its functions inlined and removed"}, sub)
                oc = "noop-but-inlined"
                outcomes.append(oc)
                bump("oc:" + oc)
                continue
            if entry == "proto":
                bad("opset-not-updated", form, "any", _cls_any(s, t),
                    {"declared": str(decl), "expected": t, "source": s,
                     "what": "the result differs from the input but still declares the source opset for domain ''",
                     "after": _short(after)}, sub)
            else:
                bad("half-converted", form, op, _cls(op, s, t),
                    {"declared": str(decl), "expected": t, "source": s, "exc": None,
                     "what": "no exception, the model was altered (more than inlining) yet does not declare the "
                             "target opset", "after": _short(after)}, sub)
        if any(x != str(t) for x in fdecl):
            consistent = False
            bad("function-opset", form, op, _cls(op, s, t), {"function_declared": fdecl, "expected": t}, sub)
        if ver_conflict and decl == t:
            consistent = False
            bad("node-version", form, op, _cls(op, s, t), {"declared": decl, "node_versions": ver_conflict}, sub)
        oc = "converted" if consistent else "mixture"
        if s == t:
            oc = "same-version-rewritten" if consistent else oc
        outcomes.append(oc)
        bump("oc:" + oc)
        by_sub[json.dumps(sub)] = oc

        # validity / signature / initializers / equivalence of the graph taken at opset t
        target = after if consistent else _with_opset(after, t)
        tb = target.SerializeToString()
        if tb not in judged:
            judged[tb] = _judge_result(orig, target, t, op, s)
            bump("results_judged")
            if equiv_possible:
                bump("results_run_for_equivalence")
        for kind, detail in judged[tb]:
            bad(kind, form, op, _cls(op, s, t), dict(detail, after=_short(target)), sub)
        if shown is None:
            shown = _short(after)

    # the statement covers both entry forms: a conversion the ir.Model entry performs is a supported one, so the
    # ModelProto entry (same arguments) may not silently leave the proto at the source opset
    for sub in subs:
        if sub[0] == "proto" and by_sub.get(json.dumps(sub)) == "refused-silently-unchanged" and \
                by_sub.get(json.dumps(["ir", sub[1], sub[2]])) == "converted":
            bump("proto_silently_not_converted")
            bad("opset-not-updated", "ModelProto", "any", _cls_any(s, t),
                {"declared": s, "expected": t, "source": s,
                 "what": "the graph needed no rewriting, so the proto is byte-identical and still declares the "
                         "source opset, while the ir.Model entry with the same arguments converts the model"}, sub)

    vl = []
    for v in viols.values():
        v["detail"]["n_subcases"] = v.pop("n")
        vl.append(v)
    counts["extra_evaluations"] = len(subs) - 1
    oc_set = sorted(set(outcomes))
    return {"status": "viol" if vl else "ok", "outcome": f"{_cls(op, s, t)}:" + "+".join(oc_set), "nkey": nkeys,
            "counts": counts, "viols": vl, "show": (shown or _short(orig["proto"]))[:800]}


def item_key(item):
    import hashlib
    return hashlib.sha1(json.dumps(item, sort_keys=True).encode()).hexdigest()[:10]


def summarize(items, results, tier):
    ops = {}
    for it, r in zip(items, results):
        o = ops.setdefault(it["spec"]["op"], {"groups": 0, "viol": 0})
        o["groups"] += 1
        if r.get("status") == "viol":
            o["viol"] += 1
    return {"per_op_groups": ops, "runtime_used": "onnxruntime 1.30 for every t in 18..25; onnx.reference in "
            "addition when it runs the original (see counts admitted_*)"}
