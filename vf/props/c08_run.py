"""C08: execution of one batch (all cases of one overload) and class-minimised findings."""
from __future__ import annotations

import collections
import json

from vf import runeq
from vf.props import c08_core as K

_OPERAND_NAMES = ("other", "exponent", "self", "min", "max", "end", "weight", "tensor1", "tensor2")
_PROMOTING_FAMS = ("binary", "clamp")
_LOOSE = {"reduce": 8.0, "matmul": 16.0, "norm": 16.0, "conv": 16.0}


def _promoting_scalar(args, kwargs, names):
    """A python scalar operand that changes the result type of the tensor operands is rewritten by the
    exporter's type-promotion pass (the tensor is cast first); torchlib never sees that call."""
    torch = K.T()["torch"]
    tens = [a for a in args if isinstance(a, torch.Tensor)]
    scal = [a for a, n in zip(args, names) if n in _OPERAND_NAMES and isinstance(a, (bool, int, float))]
    if not tens or not scal:
        return False
    base = tens[0].dtype
    for t in tens[1:]:
        base = torch.promote_types(base, t.dtype) if t.dim() > 0 or True else base
    rt = base
    for s in scal:
        rt = torch.result_type(torch.empty((1,), dtype=rt), s)
    return rt != tens[0].dtype


def _equal_at_f32(got, exp, loose):
    import numpy as np

    def down(x):
        if isinstance(x, (list, tuple)):
            return [down(y) for y in x]
        x = np.asarray(x)
        return x.astype(np.float32) if x.dtype == np.float64 else x
    return runeq.compare(down(got), down(exp), loose=loose) is None


# families whose torchlib bodies do not branch on the element type: a disagreement that only the reference
# evaluator shows (ORT has no kernel for the dtype) is arbitrated by the float32 twin of the case
_F32_TWIN_FAMS = ("pool", "conv", "padnd")


def _graph_signature(mb):
    """Structure of a traced graph without element types: per node (domain, op_type, attributes), tensor-valued
    attributes by shape and float64 values; local functions by identifier."""
    import numpy as np
    onnx = K.T()["onnx"]
    mp = onnx.ModelProto()
    mp.ParseFromString(mb)
    sig = []
    for n in mp.graph.node:
        attrs = []
        for a in sorted(n.attribute, key=lambda a: a.name):
            if a.type == onnx.AttributeProto.TENSOR:
                arr = onnx.numpy_helper.to_array(a.t)
                attrs.append((a.name, "tensor", tuple(arr.shape), tuple(np.asarray(arr, dtype=np.float64).ravel().tolist())))
            elif a.type in (onnx.AttributeProto.GRAPH, onnx.AttributeProto.GRAPHS):
                return None  # not compared: never equal
            else:
                b = onnx.AttributeProto()
                b.CopyFrom(a)
                attrs.append((a.name, b.SerializeToString()))
        sig.append((n.domain, n.op_type, len(n.input), len(n.output), tuple(attrs)))
    return sig, sorted((f.domain, f.name, f.overload) for f in mp.functions)


def _f32_twin(case):
    """the same argument tuple with every float64/float16 tensor replaced by its float32 counterpart"""
    dt = case["f"].get("dtype")
    if dt not in ("f64", "f16"):
        return None

    def conv(spec):
        if isinstance(spec, list) and spec and spec[0] == "T" and spec[2] == dt:
            return ["T", spec[1], "f32", spec[3]]
        if isinstance(spec, list) and spec and spec[0] == "TL":
            return ["TL", [conv(x) for x in spec[1]]]
        return spec
    twin = dict(case)
    twin["g"] = {k: conv(v) for k, v in case["g"].items()}
    twin["f"] = dict(case["f"], dtype="f32")
    return twin


def run_case(case, fam):
    """-> (verdict, info) verdict in ok | skip:<reason> | <kind> (dtype|shape|value|structure|trace-fails|
    invalid-graph|run-fails)"""
    keep = {}
    v, info = _run_case_raw(case, fam, keep)
    if (fam in _F32_TWIN_FAMS and v in ("value", "shape") and keep.get("engine") == "ref"):
        twin = _f32_twin(case)
        if twin is not None:
            keep2 = {}
            v2, _ = _run_case_raw(twin, fam, keep2)
            if v2 == "ok" and keep2.get("engine") == "ort":
                a, b = _graph_signature(keep["graph"]), _graph_signature(keep2["graph"])
                if a is not None and a == b:
                    # node for node the same graph; ORT computes torch's answer at float32, so what the
                    # reference evaluator shows at this dtype is the evaluator's, not torchlib's
                    return "skip:reference-evaluator-differs-same-graph-agrees-on-ORT-at-f32", info
    return v, info


def _run_case_raw(case, fam, keep):
    t = K.T()
    torch = t["torch"]
    qual = case["op"]
    fn = t["reg"].get(qual)
    if fn is None:
        return "skip:not-registered", None
    try:
        ov = K.get_overload(qual)
    except AttributeError:
        return "skip:no-aten-overload", None
    vals = {k: K.make_value(v) for k, v in case["g"].items()}
    args, kwargs, names = K.bind(ov._schema, vals)
    try:
        with torch.no_grad():
            expected = ov(*[a.clone() if isinstance(a, torch.Tensor) else a for a in args], **kwargs)
    except Exception as e:  # noqa: BLE001  torch refuses: outside the operator's domain
        return "skip:torch-raises", str(e)[:120]
    if any(isinstance(a, torch.Tensor) and a.dtype == torch.uint8 for a in args) and any(
            isinstance(a, (int, float)) and not isinstance(a, bool) and a < 0 and n in _OPERAND_NAMES + ("value", "fill_value")
            for a, n in list(zip(args, names)) + [(v, k) for k, v in kwargs.items()]):
        return "skip:negative-scalar-for-uint8(wraps)", None
    if (fam in _PROMOTING_FAMS or qual.startswith("aten::where")) and _promoting_scalar(args, kwargs, names):
        return "skip:promoting-scalar", None
    est, exp = K.expected_outputs(expected)
    if est == "scalar":
        return "skip:returns-python-scalar", None
    try:
        oargs, okw, inputs, feeds = K.to_onnx_args(fn, args, kwargs)
    except K.Refused as r:
        return f"skip:{r}", None
    try:
        mp, structure, nout = K.trace(fn, oargs, okw, inputs)
    except K.Refused as r:
        return f"skip:{r}", None
    except Exception as e:  # noqa: BLE001
        root = e
        while root.__cause__ is not None:
            root = root.__cause__
        return "trace-fails", f"{type(root).__name__}: {str(root)[:300]}"
    # native steps (onnx inference/checker, ORT, reference evaluator) run in the sandbox helper
    from vf.props import c08_helper
    H = c08_helper.helper()
    ranks = [getattr(e, "ndim", None) for e in exp]
    mb = mp.SerializeToString()
    try:
        r = H.call(("check", mb, ranks))
    except c08_helper.Crashed as e:
        return "invalid-graph", f"NATIVE CRASH in onnx shape inference / checker on the traced graph: {e}"
    if r[0] != "ok":
        return "invalid-graph", r[1][:320]
    mb2 = r[1]
    keep["graph"] = mb
    try:
        r = H.call(("run", mb2, feeds))
    except c08_helper.Crashed as e:
        return "run-fails", f"NATIVE CRASH while running the traced graph: {e}"
    if r[0] != "ok":
        if r[3]:
            return "skip:no-runtime-kernel", (r[1] + " | " + r[2])[:200]
        if "ConvTranspose" in r[1] and "may be too large for stride" in r[1]:
            # ONNX: "each value of output_padding must be less than the corresponding stride/dilation"; torch
            # likewise accepts output_padding < max(stride, dilation).  ORT insists on output_padding < stride
            # (and onnx.reference cannot evaluate the node either): no runtime decides such a graph
            return "skip:runtimes-reject-output_padding>=stride-with-larger-dilation(ONNX-allows)", r[1][:200]
        if "ConvTranspose" in r[1] and "must be less than max(stride, dilation)" in r[1]:
            # torch documents the same constraint but validates it only for a non-empty input: the tuple is
            # outside the documented domain of the operator (and of ONNX ConvTranspose)
            return "skip:output_padding>=max(stride,dilation)-torch-validates-only-non-empty-input", r[1][:200]
        return "run-fails", ("ort: " + r[1] + " | ref: " + r[2])[:400]
    outs, engine = r[1], r[2]
    keep["engine"] = engine

    def shape_up(o):
        # a torch list corresponds to an ONNX sequence output or to several outputs
        if est == "list":
            return [o[0]] if (len(o) == 1 and isinstance(o[0], list)) else [list(o)]
        return list(o)
    loose = _LOOSE.get(fam, 1.0)
    d = runeq.compare(shape_up(outs), exp, loose=loose)
    empty_operand = any(getattr(v, "size", 1) == 0 for v in feeds.values())
    # ORT kernels on empty operands can return uninitialised memory (MatMul [2,0]x[0]: the answer changes from run to
    # run).  For such feeds the verdict is "ok" when EITHER runtime agrees with torch (below: ORT differs, the reference
    # agrees -> ok instead of a skip), so it does not depend on what ORT happened to find in memory.
    if d is None:
        return "ok", engine
    if engine == "ref" and K.classify_diff(d) == "value" and _equal_at_f32(shape_up(outs), exp, loose):
        # onnx.reference evaluates several ops (Erf, HardSwish, Celu ...) through float32 even for double
        # inputs: a float64 difference below float32 resolution says nothing about torchlib
        return "skip:reference-evaluator-computes-in-f32", d
    if engine == "ort":
        # arbitration: a disagreement that the reference evaluator does not share is an ORT defect
        # (e.g. ReduceSum over an empty tensor with a negative axis keeps the axis), not torchlib's
        try:
            r = H.call(("ref", mb2, feeds))
        except c08_helper.Crashed:
            r = ("err", "crash")
        if r[0] == "ok":
            dr = runeq.compare(shape_up(r[1]), exp, loose=loose)
            if dr is None:
                if empty_operand:
                    return "ok", "ref"   # see above: the verdict must not depend on what ORT found in memory
                return "skip:ort-differs-reference-agrees-with-torch", d
            d = dr + " [reference evaluator; ORT: " + d + "]"  # classify by the reference's answer
    return K.classify_diff(d), d


def execute_ops(item):
    fam, op = item["fam"], item["op"]
    from vf.props import c08_dom
    cases = c08_dom.cases_for(item["tier"], fam, op)
    if item.get("part"):
        cases = [cs for cs in cases if cs["f"].get("dtype", "") == item["part"]]
    if len(cases) != item["ncases"]:
        raise AssertionError(f"re-enumeration of {op} gave {len(cases)} cases, plan counted {item['ncases']}")
    verdicts, infos = [], []
    outcomes = collections.Counter()
    engines = collections.Counter()
    if cases and cases[0].get("noschema"):
        return {"status": "skip", "skip": "no-aten-overload", "outcome": "no-aten-overload",
                "case_outcomes": {"skip:no-aten-overload": 1}, "counts": {}}
    for cs in cases:
        v, info = run_case(cs, fam)
        verdicts.append(v)
        infos.append(info)
        outcomes[v] += 1
        if v == "ok":
            engines[info] += 1
    decided = [i for i, v in enumerate(verdicts) if not v.startswith("skip:")]
    feats = [cases[i]["f"] for i in decided]
    fails = [None if verdicts[i] == "ok" else verdicts[i] for i in decided]
    classes = K.minimise_classes(feats, fails)
    viols = {}
    for i, cl in zip(decided, classes):
        if cl is None:
            continue
        part = item.get("part") or ""
        if part and "dtype" not in [x.split("=")[0].split("~")[0] for x in cl.split(",")]:
            # the overload's cases were split over several items by dtype: the split feature stays in the class
            cl = f"dtype={part.split('#')[0]}" + ("" if cl == "any" else "," + cl)
        key = f"C08|{verdicts[i]}|{op}|{cl}"
        if key not in viols:
            viols[key] = {"key": key, "detail": {"first_case": cases[i]["g"], "features": cases[i]["f"],
                                                 "what": infos[i], "n": 0, "part": part}}
        viols[key]["detail"]["n"] += 1
    nkeys = [op + "|" + json.dumps(cases[i]["f"], sort_keys=True) for i in decided]
    status = "viol" if viols else ("ok" if decided else "skip")
    res = {"status": status, "outcome": "+".join(sorted({v.split(":")[0] if v.startswith("skip") else v for v in outcomes})),
           "nkey": nkeys, "viols": list(viols.values()), "case_outcomes": dict(outcomes), "engines": dict(engines),
           "counts": {"extra_evaluations": len(cases) - 1, "cases_decided": len(decided),
                      "cases_skipped": len(cases) - len(decided), "cases_failed": sum(1 for f in fails if f)},
           "show": f"{op}: {len(cases)} cases, {dict(outcomes)}"}
    if status == "skip":
        res["skip"] = "all-cases-skipped:" + "+".join(sorted(outcomes))
    return res
