"""C18: the typed operator alphabet for traces (opset 23).

An entry: key, op, slots, attribute variants, number of outputs.
A slot says where an operand may come from:
  kinds   element-type kinds of *values* allowed here ("f" float32, "i" int64, "b" bool); "" = no values
  lits    literal operands offered here (Python scalars / lists)
  none    the optional input may be omitted (None)
Whether a completed call is well-typed is decided by the ONNX schema type constraints plus an actual
evaluation by onnx.reference (c18_trace.eval_node) - not by a hand-written shape calculus.
"""
from __future__ import annotations

NUM = [0, 1, -3, 2.5, -0.0]          # the scalar literal pool of the brief (True and [1,2] appear per role)


def S(kinds="f", lits=(), none=False):
    return {"kinds": kinds, "lits": list(lits), "none": none}


def E(key, op, slots, attrs=({},), nout=1, core=False):
    return {"key": key, "op": op, "slots": slots, "attrs": list(attrs), "nout": nout, "core": core}


I64 = {"dtype": "int64"}
F32 = {"dtype": "float32"}
BOOL = {"dtype": "bool"}

OPS = [
    E("Add", "Add", [S("fi", NUM), S("fi", NUM + [[1.0, 2.0, 3.0], [1, 2, 3]])], core=True),
    E("Sub", "Sub", [S("fi", NUM), S("fi", NUM)], core=True),
    E("Mul", "Mul", [S("fi", NUM), S("fi", NUM + [[1.0, -0.0, 2.0]])], core=True),
    E("Div", "Div", [S("f", NUM), S("f", NUM + [[1.0, -0.0, 2.0]])], core=True),
    E("Neg", "Neg", [S("fi")], core=True),
    E("Abs", "Abs", [S("fi")]),
    E("Relu", "Relu", [S("f")], core=True),
    E("Sigmoid", "Sigmoid", [S("f")]),
    E("Identity", "Identity", [S("fib")]),
    E("Not", "Not", [S("b")]),
    E("And", "And", [S("b"), S("b", [True])]),
    E("Max", "Max", [S("fi"), S("fi", [0, 2.5])]),
    # a literal in the FIRST slot of a variadic input, tensors only after it (seeded C18g: the tail of a variadic
    # input did not bind the type variable, so the leading literal kept its Python type)
    E("MaxL", "Max", [S("", [0, 2.5, -3]), S("fi")]),
    E("MinL3", "Min", [S("", [1, 2.5]), S("fi"), S("fi", [0])]),
    E("SumL", "Sum", [S("", [1, -0.0]), S("f"), S("f")]),
    E("MatMul", "MatMul", [S("f"), S("f")]),
    E("Transpose", "Transpose", [S("fi")], attrs=[{"perm": [1, 0]}], core=True),
    E("Reshape", "Reshape", [S("fi"), S("", [[3, 2], [-1], [1, 2]])], core=True),
    E("Concat", "Concat", [S("fi"), S("fi")], attrs=[{"axis": 0}, {"axis": 1}]),
    E("Split", "Split", [S("fi"), S("", [[1, 2]])], attrs=[{"axis": 1}], nout=2, core=True),
    E("SplitN", "Split", [S("fi")], attrs=[{"axis": 0, "num_outputs": 2}], nout=2),
    E("TopK", "TopK", [S("f"), S("", [[2]])], attrs=[{"axis": 1}, {"axis": 1, "largest": 0}], nout=2),
    E("ReduceSum", "ReduceSum", [S("fi"), S("", [[1], [0, 1]], none=True)], attrs=[{"keepdims": 0}, {}], core=True),
    E("Cast", "Cast", [S("fib")], attrs=[{"to": I64}, {"to": F32}, {"to": BOOL}], core=True),
    E("Where", "Where", [S("b", [True]), S("fi", NUM), S("fi", NUM)], core=True),
    E("Less", "Less", [S("fi"), S("fi", NUM)], core=True),
    E("Equal", "Equal", [S("fib"), S("fib", [0, 1, True])]),
    E("Clip", "Clip", [S("f"), S("", NUM, none=True), S("", [1, 2.5, -0.0], none=True)]),
    E("Gather", "Gather", [S("fi"), S("i", [[1, 2], 1, 0])], attrs=[{"axis": 1}, {"axis": 0}]),
    E("Slice", "Slice", [S("fi"), S("", [[0], [1]]), S("", [[2], [3]]), S("", [[1]], none=True), S("", [[1], [2]], none=True)]),
    E("Shape", "Shape", [S("fib")], attrs=[{}, {"start": 1}]),
    E("Expand", "Expand", [S("fi"), S("", [[2, 3], [1, 2, 3]])]),
    E("Unsqueeze", "Unsqueeze", [S("fi"), S("", [[0], [1, 2]])]),
    E("Squeeze", "Squeeze", [S("fi"), S("", [[0]], none=True)]),
    E("Tile", "Tile", [S("fi"), S("", [[1, 2]])]),
    E("CumSum", "CumSum", [S("fi"), S("", [1, 0])]),
    E("Pad", "Pad", [S("f"), S("", [[0, 1, 0, 1]]), S("", [2.5, -3], none=True)]),
    E("Softmax", "Softmax", [S("f")], attrs=[{}, {"axis": 0}]),
    E("LeakyRelu", "LeakyRelu", [S("f")], attrs=[{"alpha": 0.5}, {}]),
    E("Gemm", "Gemm", [S("f"), S("f"), S("f", [1, 2.5], none=True)], attrs=[{"transB": 1}, {"transB": 1, "alpha": 0.5}]),
    E("ArgMax", "ArgMax", [S("f")], attrs=[{"axis": 1, "keepdims": 0}]),
    E("Flatten", "Flatten", [S("fi")], attrs=[{"axis": 0}]),
    E("Size", "Size", [S("fib")]),
    E("Mod", "Mod", [S("i"), S("", [2, -3])]),
    E("Pow", "Pow", [S("f"), S("", [2, 0.5, -0.0])]),
    E("Sum3", "Sum", [S("f"), S("f", [1]), S("f", [2.5])]),
    E("Range", "Range", [S("", [0, 1]), S("", [3]), S("", [1])]),
    E("RangeF", "Range", [S("", [0.0, -0.0]), S("", [2.5]), S("", [1.0])]),
]

BY_KEY = {e["key"]: e for e in OPS}
CORE = [e for e in OPS if e["core"]]
