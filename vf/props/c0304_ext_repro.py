"""Standalone reproductions (public API only) of the defects the C03/C04 extension reaches.

    /venv/bin/python -m vf.props.c0304_ext_repro            # all
    /venv/bin/python -m vf.props.c0304_ext_repro a c        # some

Each function builds a checker-valid model that onnxruntime executes, calls onnxscript.optimizer.optimize and prints
what goes wrong (exception / checker message / different result).  Keys: see c0304_ext_known_proposed.jsonl.
"""
from __future__ import annotations

import sys

import numpy as np
import onnx
import onnxruntime as ort
from onnx import TensorProto as TP
from onnx import helper as h
from onnx import numpy_helper as nh

from onnxscript import optimizer


def _model(nodes, ins, outs, inits=(), opset=18, functions=(), extra_imports=()):
    g = h.make_graph(nodes, "g", [h.make_tensor_value_info(*i) for i in ins], [h.make_tensor_value_info(*o) for o in outs],
                     initializer=list(inits))
    m = h.make_model(g, opset_imports=[h.make_opsetid("", opset), *extra_imports], functions=list(functions),
                     ir_version=10 if opset >= 21 else 8)
    onnx.checker.check_model(m, full_check=True)
    return m


def _run(m, feeds):
    so = ort.SessionOptions()
    so.graph_optimization_level = ort.GraphOptimizationLevel.ORT_DISABLE_ALL
    so.log_severity_level = 4
    return ort.InferenceSession(m.SerializeToString(), so, providers=["CPUExecutionProvider"]).run(None, feeds)


def _root(e):
    while e.__cause__ or e.__context__:
        e = e.__cause__ or e.__context__
    return e


def _try(m, feeds, **kw):
    exp = _run(m, feeds)
    try:
        o = optimizer.optimize(m, **kw)
    except Exception as e:  # noqa: BLE001
        r = _root(e)
        print(f"   optimize() RAISED {type(e).__name__} <- {type(r).__name__}: {str(r)[:160]}")
        return
    try:
        onnx.checker.check_model(o, full_check=True)
    except Exception as e:  # noqa: BLE001
        print("   result INVALID:", str(e).strip().split("\n")[0][:200])
        return
    got = _run(o, feeds)
    same = all(np.asarray(a).shape == np.asarray(b).shape and (np.asarray(a) == np.asarray(b)).all() for a, b in zip(exp, got))
    print("   ok, same result" if same else f"   DIFFERENT RESULT: {exp} vs {got}")


X3 = np.array([1.0, 2.0, 3.0], np.float32)


def a():
    """(a) two constant-condition If nodes whose taken branches fold a value with the same inner name
    key: C04|raises|optimize|ValueError@_constant_folding.process_node"""
    def branch(name, out, neg=False):
        nodes = [h.make_node("Constant", [], ["c"], value=nh.from_array(X3, "c")),
                 h.make_node("Neg", ["c"], ["tmp"]), h.make_node("Add", ["x", "tmp"], [out])]
        if neg:
            nodes.append(h.make_node("Neg", [out], [out + "n"]))
            out += "n"
        return h.make_graph(nodes, name, [], [onnx.ValueInfoProto(name=out)])
    nodes = [h.make_node("Constant", [], ["cond"], value=nh.from_array(np.array(True), "cond")),
             h.make_node("If", ["cond"], ["o0"], then_branch=branch("t0", "r"), else_branch=branch("e0", "r", True)),
             h.make_node("If", ["cond"], ["o1"], then_branch=branch("t1", "r"), else_branch=branch("e1", "r", True))]
    _try(_model(nodes, [("x", TP.FLOAT, [3])], [("o0", TP.FLOAT, [3]), ("o1", TP.FLOAT, [3])]), {"x": X3})


def b():
    """(b) inline=False: constant-condition If inside a model-local function; the branch owns an initializer
    keys: C04|invalid|fold|if-inlined-in-function|branch-initializers-lost (+ the C03 key of the same name)"""
    tb = h.make_graph([h.make_node("Add", ["x", "w"], ["r"])], "t", [], [onnx.ValueInfoProto(name="r")],
                      initializer=[nh.from_array(X3, "w")])
    eb = h.make_graph([h.make_node("Neg", ["x"], ["r2"])], "e", [], [onnx.ValueInfoProto(name="r2")])
    fn = h.make_function("loc", "F", ["x"], ["o"], [
        h.make_node("Constant", [], ["cond"], value=nh.from_array(np.array(True), "cond")),
        h.make_node("If", ["cond"], ["o"], then_branch=tb, else_branch=eb)], opset_imports=[h.make_opsetid("", 18)])
    m = _model([h.make_node("F", ["x"], ["y"], domain="loc")], [("x", TP.FLOAT, [3])], [("y", TP.FLOAT, [3])],
               functions=[fn], extra_imports=[h.make_opsetid("loc", 1)])
    _try(m, {"x": X3}, inline=False)


def c():
    """(c) folding string constants (value_strings / string initializer through Concat, Identity, Gather)
    key: C04|raises|optimize|TypeError@onnx_ir:_enums.bitwidth"""
    for name, nodes, inits in (
            ("Concat(value_strings, value_strings)",
             [h.make_node("Constant", [], ["a"], value_strings=["a", "b"]), h.make_node("Constant", [], ["b"], value_strings=["c"]),
              h.make_node("Concat", ["a", "b"], ["y"], axis=0)], []),
            ("Identity(string initializer)", [h.make_node("Identity", ["s"], ["y"])],
             [nh.from_array(np.array(["a", "b"], dtype=object), "s")]),
            ("Gather(value_strings, [1])",
             [h.make_node("Constant", [], ["a"], value_strings=["a", "b"]), h.make_node("Constant", [], ["i"], value_ints=[1]),
              h.make_node("Gather", ["a", "i"], ["y"])], [])):
        print("  ", name)
        _try(_model(nodes, [], [("y", TP.STRING, ["K"])], inits), {})


def d():
    """(d) Shape / Size partial evaluators emit Constant<value_ints / value_int>, which exists from opset 12 on
    keys: C04|invalid|fold|evaluator:Shape|emits-Constant-value_int(s)-below-opset-12, ...evaluator:Size|..."""
    for op, out in (("Shape", ("y", TP.INT64, [2])), ("Size", ("y", TP.INT64, []))):
        for opset in (11, 7, 1):
            print("  ", op, "opset", opset)
            _try(_model([h.make_node(op, ["x"], ["y"])], [("x", TP.FLOAT, [2, 3])], [out], opset=opset),
                 {"x": np.zeros((2, 3), np.float32)})


def e_ref_attr():
    """(e) inline=False: a node inside a function whose attribute is a reference (axis=@axis) is constant-folded with the
    attribute's default
    keys: C04|invalid|fold|ref-attribute-in-function|node-folded-with-attribute-defaults (+ the C03 key)"""
    fn = h.make_function("loc", "F", [], ["o"], [
        h.make_node("Constant", [], ["k"], value=nh.from_array(np.array([[-2.5, -1, 0], [1, 2.5, 0.5]], np.float32), "k")),
        h.make_node("ArgMax", ["k"], ["o"])], opset_imports=[h.make_opsetid("", 18)], attributes=["axis"])
    ref = onnx.AttributeProto(name="axis", type=onnx.AttributeProto.INT, ref_attr_name="axis")
    fn.node[1].attribute.append(ref)
    m = _model([h.make_node("F", [], ["y"], domain="loc", axis=1)], [], [("y", TP.INT64, [2, 1])],
               functions=[fn], extra_imports=[h.make_opsetid("loc", 1)])
    _try(m, {}, inline=False)


def e_sparse():
    """(e) a Constant written with sparse_value (root cause in onnx_ir 1.0: sparse tensors cannot be deserialized)
    key: C04|raises|optimize|NotImplementedError@onnx_ir:serde._deserialize_attribute"""
    sp = h.make_sparse_tensor(nh.from_array(np.array([5.0, 7.0], np.float32)), nh.from_array(np.array([1, 4], np.int64)), [2, 3])
    m = _model([h.make_node("Constant", [], ["c"], sparse_value=sp), h.make_node("Add", ["x", "c"], ["y"])],
               [("x", TP.FLOAT, [2, 3])], [("y", TP.FLOAT, [2, 3])])
    _try(m, {"x": np.zeros((2, 3), np.float32)})


def e_type_attr():
    """(e) a node with a TYPE_PROTO attribute (Optional<type=...> without input): the common-subexpression pass of
    onnx_ir hashes attribute values
    key: C04|raises|optimize|TypeError@onnx_ir:common_subexpression_elimination._eliminate_common_subexpression"""
    m = _model([h.make_node("Optional", [], ["o"], type=h.make_tensor_type_proto(TP.FLOAT, [2])),
                h.make_node("OptionalHasElement", ["o"], ["y"])], [], [("y", TP.BOOL, [])])
    _try(m, {})


ALL = {"a": a, "b": b, "c": c, "d": d, "e_ref_attr": e_ref_attr, "e_sparse": e_sparse, "e_type_attr": e_type_attr}

if __name__ == "__main__":
    for name in (sys.argv[1:] or list(ALL)):
        print(f"== {name}: {ALL[name].__doc__.strip().splitlines()[0]}")
        ALL[name]()
