"""Standalone reproductions of the C05 findings (public API only: onnx, onnxruntime, numpy, onnxscript.rewriter).

    /venv/bin/python -m vf.props.c05_repro            # all
    /venv/bin/python -m vf.props.c05_repro relu_clip  # entries whose name contains the substring

Each entry: a model in onnx text form, the rule that is applied alone (RewriteRuleSet([rule]).apply_to_model), one
input valuation.  Prints ORT(before), ORT(after) or the checker / runtime error of the rewritten model.
"""
from __future__ import annotations

import sys

import numpy as np
import onnx
import onnx.parser
import onnxruntime as ort

from onnxscript import ir
from onnxscript.rewriter import RewriteRuleSet
import onnxscript.rewriter.rules.common as C

f32 = np.float32


def _fusion(mod, name):
    import importlib
    return getattr(importlib.import_module("onnxscript.rewriter.rules.fusion." + mod), name)


def _run(model, feeds):
    so = ort.SessionOptions()
    so.graph_optimization_level = ort.GraphOptimizationLevel.ORT_DISABLE_ALL
    so.log_severity_level = 4
    s = ort.InferenceSession(model.SerializeToString(), so, providers=["CPUExecutionProvider"])
    names = {i.name for i in s.get_inputs()} | {i.name for i in s.get_overridable_initializers()}
    return s.run(None, {k: v for k, v in feeds.items() if k in names})


def show(name, text, rule, feeds):
    model = onnx.parser.parse_model(text)
    onnx.checker.check_model(model, full_check=True)
    m = ir.serde.deserialize_model(model)
    n = RewriteRuleSet([rule]).apply_to_model(m)
    after = ir.serde.serialize_model(m)
    print(f"--- {name}: rule applied {n} time(s)")
    try:
        before = _run(model, feeds)
        print("   before:", [np.asarray(a).tolist() for a in before], [np.asarray(a).shape for a in before])
    except Exception as e:  # noqa: BLE001
        print("   ORT(before) cannot run the original:", str(e)[:160])
    try:
        onnx.checker.check_model(after, full_check=True)
    except Exception as e:  # noqa: BLE001
        print("   checker(after):", str(e).strip().splitlines()[0][:200])
    try:
        got = _run(after, feeds)
        print("   after: ", [np.asarray(a).tolist() for a in got], [np.asarray(a).shape for a in got])
    except Exception as e:  # noqa: BLE001
        print("   ORT(after) fails:", str(e)[:200])


H = '<ir_version: 10, opset_import: ["" : %d]>\n'
X = np.array([-3.0, 0.5, 7.0], dtype=f32)
ENTRIES = []


def entry(name, opset, body, rule, feeds):
    ENTRIES.append((name, (H % opset) + body, rule, feeds))


# ---- shared root causes ---------------------------------------------------------------------------------------------
entry("A init_input: initializer that is also a graph input (a default!) treated as constant [mul_by_1]", 18,
      "g (float[3] x, float c) => (float[3] y) <float c = {1}> { y = Mul(x, c) }", C.mul_by_1_rule,
      {"x": X, "c": np.array(3, f32)})
entry("B literal tolerance: x + 1e-9 (float64) matched as x + 0 [add_0]", 18,
      "g (double[3] x) => (double[3] y) <double c = {1e-9}> { y = Add(x, c) }", C.add_0_rule,
      {"x": np.array([0.0, 1e-9, 1.0])})
# ---- default rule set -----------------------------------------------------------------------------------------------
entry("C cast_constant_of_shape_without_value fires although value is given", 18,
      "g (int64[2] s) => (float[?,?] y) { c = ConstantOfShape <value = int64[1] {7}> (s) y = Cast <to = 1> (c) }",
      C.cast_constant_of_shape_without_value_rule, {"s": np.array([1, 2], np.int64)})
entry("D two_reshapes_matmul_reshape: only shapes are compared", 18,
      """g (float[6,4] a, float[2,4,5] b) => (float[2,6,5] y)
         <int64[4] sa = {2,1,3,4}, int64[3] sb = {2,4,5}, int64[3] sc = {2,6,5}>
         { ra = Reshape(a, sa) rb = Reshape(b, sb) m = MatMul(ra, rb) y = Reshape(m, sc) }""",
      C.two_reshapes_matmul_reshape_rule,
      {"a": np.arange(24, dtype=f32).reshape(6, 4), "b": np.arange(40, dtype=f32).reshape(2, 4, 5) % 7})
entry("E1 materialize_reshape_shape: [-1, 0] with allowzero=1", 18,
      "g (float[N,0] x, float[N,0] t) => (float[N,0] y) { s = Shape(t) y = Reshape(x, s) }",
      C.materialize_reshape_shape_rule, {"x": np.zeros((2, 0), f32), "t": np.zeros((2, 0), f32)})
entry("E2 materialize_reshape_shape: allowzero attribute emitted at opset 13", 13,
      "g (float[N,3,4] x, float[N,12] t) => (float[N,12] y) { s = Shape(t) y = Reshape(x, s) }",
      C.materialize_reshape_shape_rule, {"x": np.zeros((2, 3, 4), f32), "t": np.zeros((2, 12), f32)})
entry("F max_min -> Clip with [1,1] constants changes the rank", 18,
      "g (float[3] x) => (float[1,3] y) <float[1,1] lo = {0}, float[1,1] hi = {1}> { a = Max(x, lo) y = Min(a, hi) }",
      C.max_min_rule, {"x": X})
entry("G1 Relu(Clip(x, -3, -1)) -> Clip(x, 0, -1)", 18,
      "g (float[3] x) => (float[3] y) <float lo = {-3}, float hi = {-1}> { a = Clip(x, lo, hi) y = Relu(a) }",
      C.successive_relu_clip_rule, {"x": X})
entry("G2 Clip(Clip(x, 0, 1), 2, 3) -> Clip(x, 2, 1)", 18,
      """g (float[3] x) => (float[3] y) <float a = {0}, float b = {1}, float c = {2}, float d = {3}, float[3] t>
         { t = Clip(x, a, b) y = Clip(t, c, d) }""", C.successive_clip_rule, {"x": X})
entry("H1 twin (fixed in /repo by bffcbe6): two Flatten nodes on the same input -> initializer name clash", 18,
      "g (float[2,3,4] x) => (float[6,4] y, float[1,24] z) { y = Flatten <axis = 2> (x) z = Flatten <axis = 0> (x) }",
      C.flatten_to_reshape_rule, {"x": np.zeros((2, 3, 4), f32)})
entry("H2 twin (fixed in /repo by bffcbe6): two Min(Min) chains on the same input -> initializer name clash", 18,
      """g (float[3] x) => (float[3] y, float[3] z) <float a = {1}, float b = {2}, float c = {5}, float d = {6}>
         { t = Min(x, a) y = Min(t, b) u = Min(x, c) z = Min(u, d) }""", C.min_min_rule, {"x": X})
entry("I1 Flatten of a static size-0 input -> Reshape([1, 0]) (0 means copy)", 18,
      "g (float[0,3] x) => (float[1,0] y) { y = Flatten <axis = 0> (x) }", C.flatten_to_reshape_rule,
      {"x": np.zeros((0, 3), f32)})
entry("I2 Flatten with two symbolic dims -> Reshape([0,-1]) fails when the first dim is 0 at run time", 18,
      "g (float[N,M] x) => (float[N,M] y) { y = Flatten(x) }", C.flatten_to_reshape_rule, {"x": np.zeros((0, 3), f32)})
entry("J1 slice_split: odd last dim (5 -> 2+3) becomes Split(num_outputs=2) = 3+2", 18,
      """g (float[2,5] x) => (float[2,3] b, float[2,2] a)
         <int64[1] z = {0}, int64[1] h = {2}, int64[1] e = {5}, int64[1] ax = {-1}>
         { b = Slice(x, h, e, ax) a = Slice(x, z, h, ax) }""", C.slice_split_rule,
      {"x": np.arange(10, dtype=f32).reshape(2, 5)})
entry("J2 slice_split at opset 13: Split has no num_outputs", 13,
      """g (float[2,6] x) => (float[2,3] b, float[2,3] a)
         <int64[1] z = {0}, int64[1] h = {3}, int64[1] e = {6}, int64[1] ax = {-1}>
         { b = Slice(x, h, e, ax) a = Slice(x, z, h, ax) }""", C.slice_split_rule,
      {"x": np.arange(12, dtype=f32).reshape(2, 6)})
entry("K ScatterND(reduction=add) with full static indices -> Identity(updates)", 18,
      """g (float[3] d, float[3] u) => (float[3] y) <int64[3,1] i = {0,1,2}>
         { y = ScatterND <reduction = "add"> (d, i, u) }""", C.no_op_static_scatter_nd_rule, {"d": X, "u": X + 1})
entry("L normalize_pad_format: SAME_UPPER with dilations=2 -> pads [1,1,1,1] (need [2,2,2,2])", 18,
      """g (float[1,1,5,5] x) => (float[1,1,5,5] y) <float[1,1,3,3] w = {1,1,1,1,1,1,1,1,1}>
         { y = Conv <auto_pad = "SAME_UPPER", dilations = [2,2]> (x, w) }""", C.normalize_pad_format_conv_rule,
      {"x": np.ones((1, 1, 5, 5), f32)})
entry("M ConvInteger(Pad(x)) with x_zero_point = 3", 18,
      """g (uint8[1,1,3,3] x) => (int32[1,1,3,3] y)
         <int64[8] p = {0,0,1,1,0,0,1,1}, uint8[1,1,3,3] w = {1,1,1,1,1,1,1,1,1}, uint8 zp = {3}>
         { xp = Pad(x, p) y = ConvInteger(xp, w, zp) }""", C.fuse_pad_into_conv_integer_rule,
      {"x": np.full((1, 1, 3, 3), 5, np.uint8)})
entry("N BatchNormalization(Gemm(beta=0.5)) folded with the bias scaled by beta again", 18,
      """g (float[1,2] x) => (float[1,2] y)
         <float[2,2] w = {1,0,0,1}, float[2] c = {4,4}, float[2] s = {1,1}, float[2] b = {10,10}, float[2] m = {0,0}, float[2] v = {1,1}>
         { t = Gemm <beta = 0.5> (x, w, c) y = BatchNormalization <epsilon = 0.0> (t, s, b, m, v) }""",
      C.fuse_batchnorm_into_gemm_rule, {"x": np.array([[1, 2]], f32)})
entry("O remove_optional_bias_from_gemm at opset 10 (C is required before opset 11)", 10,
      "g (float[1,2] x) => (float[1,2] y) <float[2,2] w = {1,0,0,1}, float[2] c = {0,0}> { y = Gemm(x, w, c) }",
      C.remove_optional_bias_from_gemm_rule, {"x": np.array([[1, 2]], f32)})
# ---- other exports of rules.common ----------------------------------------------------------------------------------
entry("P conv_affine: scale of shape [1,1,1,1] gives a rank-4 bias", 18,
      """g (float[1,1,3,3] x) => (float[1,2,3,3] y)
         <float[2,1,1,1] w = {1,2}, float[2] b = {1,1}, float[1,1,1,1] s = {2}, float o = {0.5}>
         { c = Conv(x, w, b) m = Mul(c, s) y = Add(m, o) }""", C.conv_affine_fusion_rule, {"x": np.ones((1, 1, 3, 3), f32)})
_ex = {r.name: r for r in C.expand_before_binary_op_rules.rules}
entry("Q1 Expand to [1,1,3] removed before Add: result rank 3 -> 1", 18,
      "g (float[3] x, float[3] y) => (float[1,1,3] z) <int64[3] s = {1,1,3}> { e = Expand(x, s) z = Add(e, y) }",
      _ex["ExpandFirst_Add"], {"x": X, "y": X})
entry("Q2 unnamed symbolic dims compared equal: y is [1,3] at run time, target [2,3]", 18,
      """g (float[1,3] x, float[?,3] y, int64[2] s) => (float[?,3] z) <float[?,3] e>
         { e = Expand(x, s) z = Add(e, y) }""", _ex["ExpandFirst_Add"],
      {"x": X.reshape(1, 3), "y": X.reshape(1, 3), "s": np.array([2, 3], np.int64)})
entry("Q3 BitShift: required attribute 'direction' dropped", 18,
      """g (uint8[3] x, uint8[2,3] y) => (uint8[2,3] z) <int64[2] s = {2,3}>
         { e = Expand(x, s) z = BitShift <direction = "LEFT"> (e, y) }""", _ex["ExpandFirst_BitShift"],
      {"x": np.array([1, 2, 3], np.uint8), "y": np.ones((2, 3), np.uint8)})
entry("Q4 Mod: fmod=1 dropped", 18,
      """g (float[3] x, float[2,3] y) => (float[2,3] z) <int64[2] s = {2,3}>
         { e = Expand(x, s) z = Mod <fmod = 1> (e, y) }""", _ex["ExpandFirst_Mod"],
      {"x": np.array([-7, 7, 5.5], f32), "y": np.full((2, 3), 3, f32)})
_hs = {}
for _r in C.fuse_hardswish_rules().rules:
    _hs.setdefault(_r.name, _r)
entry("R1 HardSigmoidFusion accepts 6.0005 (rtol 1e-4)", 18,
      """g (float[3] x) => (float[3] y) <float b = {3}, float lo = {0}, float hi = {6}, float d = {6.0005}>
         { a = Add(x, b) c = Clip(a, lo, hi) y = Div(c, d) }""", _hs["HardSigmoidFusion"], {"x": np.array([-1, 0.5, 2], f32)})
entry("R2 HardSwishFusion at opset 13 (HardSwish exists from opset 14)", 13,
      """g (float[3] x) => (float[3] y) <float b = {3}, float lo = {0}, float hi = {6}, float d = {6}>
         { a = Add(x, b) c = Clip(a, lo, hi) m = Mul(c, x) y = Div(m, d) }""", _hs["HardSwishFusion"], {"x": X})
entry("R3 HardSigmoidFusion with bias of shape [1,1,1]: rank 3 -> 2", 18,
      """g (float[2,3] x) => (float[1,2,3] y) <float[1,1,1] b = {3}, float lo = {0}, float hi = {6}, float d = {6}>
         { a = Add(x, b) c = Clip(a, lo, hi) y = Div(c, d) }""", _hs["HardSigmoidFusion"], {"x": np.ones((2, 3), f32)})
entry("S gemm_to_matmul_add with C of shape [M,N]: Add cannot broadcast [6,5] to [2,3,5]", 18,
      """g (float[2,3,4] a, float[4,5] b) => (float[2,3,5] y)
         <int64[2] sa = {6,4}, int64[3] sc = {2,3,5}, float[6,5] c = {0,0,0,0,0,0,0,0,0,0,0,0,0,0,0,0,0,0,0,0,0,0,0,0,0,0,0,0,0,1}>
         { ra = Reshape(a, sa) g1 = Gemm <alpha = 1.0, beta = 1.0> (ra, b, c) y = Reshape(g1, sc) }""",
      C.gemm_to_matmul_add_rule, {"a": np.ones((2, 3, 4), f32), "b": np.ones((4, 5), f32)})
entry("T matmul_add_to_gemm with an addend of rank 3", 18,
      "g (float[3,4] a, float[4,5] b, float[2,3,5] c) => (float[2,3,5] y) { m = MatMul(a, b) y = Add(m, c) }",
      C.matmul_add_to_gemm_rule, {"a": np.ones((3, 4), f32), "b": np.ones((4, 5), f32), "c": np.ones((2, 3, 5), f32)})
# ---- rules.fusion ---------------------------------------------------------------------------------------------------
entry("U1 LayerNormBiasFusion with a rank-4 bias", 18,
      """g (float[2,3,4] x, float[1,1,1,4] b) => (float[1,2,3,4] y) <float[4] s = {1,1,1,1}>
         { n = LayerNormalization(x, s) y = Add(n, b) }""", _fusion("_layer_norm", "_layer_norm_with_bias_rule"),
      {"x": np.arange(24, dtype=f32).reshape(2, 3, 4), "b": np.ones((1, 1, 1, 4), f32)})
entry("U2 RmsNormFusion with only the first Cast: output is float, RMSNormalization(x: float16) yields float16", 23,
      """g (float16[2,4] x) => (float[2,4] y) <float p = {2}, int64[1] ax = {-1}, float e = {0.000001}, float[4] s = {1,1,1,1}>
         { c = Cast <to = 1> (x) q = Pow(c, p) m = ReduceMean <keepdims = 1, noop_with_empty_axes = 0> (q, ax)
           a = Add(m, e) r = Sqrt(a) i = Reciprocal(r) n = Mul(c, i) y = Mul(n, s) }""",
      _fusion("_rms_normalization", "_rule1"), {"x": np.ones((2, 4), np.float16)})
entry("U3 RmsNormFusion in an opset-18 model (RMSNormalization exists from opset 23)", 18,
      """g (float[2,4] x) => (float[2,4] y) <float p = {2}, int64[1] ax = {-1}, float e = {0.000001}, float[4] s = {1,1,1,1}>
         { q = Pow(x, p) m = ReduceMean <keepdims = 1, noop_with_empty_axes = 0> (q, ax)
           a = Add(m, e) r = Sqrt(a) i = Reciprocal(r) n = Mul(x, i) y = Mul(n, s) }""",
      _fusion("_rms_normalization", "_rule1"), {"x": np.ones((2, 4), f32)})


def main():
    sub = sys.argv[1] if len(sys.argv) > 1 else ""
    for name, text, rule, feeds in ENTRIES:
        if sub in name:
            try:
                show(name, text, rule, feeds)
            except Exception as e:  # noqa: BLE001
                print(f"--- {name}: repro script error {type(e).__name__}: {str(e)[:300]}")


if __name__ == "__main__":
    main()
