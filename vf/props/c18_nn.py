"""C18 part (b): module trees built twice - with onnxscript.nn and with torch.nn - from one JSON spec.

Tree spec (JSON):
  {"t": "leaf", "np": 1|2, "named": bool, "raise": None|"pre"|"post"}   raise: forward() raises Refuse before touching its
                                                                 parameters / after adding w; the caller catches it and goes on
  {"t": "cont", "kids": [spec...], "named": bool}                  (child attributes are "a", "b")
  {"t": "list"|"seq", "kids": [spec...], "how": HOW}               (ModuleList / Sequential)
  {"t": "ref", "to": n}                                            (the instance built for preorder node n)
Every node carries "id" = its preorder number.  HOW in
  ctor        container constructed from its children, then attached to the parent
  append      empty container attached to the parent first, children appended afterwards
  append_pre  children appended to the detached empty container, then attached
  extend      like append but with one extend([...]) call (after attaching)
  slice       a container with one extra leading leaf is constructed and [1:] of it is attached

The same steps, in the same order, are replayed with torch.nn classes (the mirror).
"""
from __future__ import annotations

import numpy as np

ATTRS = ("a", "b")


class Refuse(Exception):
    """raised by a leaf's forward() (an unsupported configuration); callers fall back to the identity"""


def number(spec, start=0):
    """Assign preorder ids in place; returns next id."""
    spec["id"] = start
    nxt = start + 1
    for k in spec.get("kids", []):
        nxt = number(k, nxt)
    return nxt


def render(spec):
    t = spec["t"]
    if t == "ref":
        return f"@{spec['to']}"
    flags = ""
    if spec.get("named"):
        flags += "!"
    if t == "leaf":
        if spec.get("raise"):
            flags += "^" + spec["raise"]
        return f"leaf{spec['np']}{flags}#{spec['id']}"
    how = spec.get("how")
    h = f":{how}" if how and how != "ctor" else ""
    return f"{t}{h}{flags}#{spec['id']}(" + ",".join(render(k) for k in spec["kids"]) + ")"


def param_value(leaf_id, j):
    """Distinct power-of-two weights so a sum identifies which parameters were added how often."""
    return float(2 ** (2 * (leaf_id % 12) + j)) / 64.0


# ---------------------------------------------------------------------------------------------------------
# A backend = the set of classes and the primitive steps; everything else is shared.
# ---------------------------------------------------------------------------------------------------------

class _OnnxBackend:
    name = "onnxscript"

    def __init__(self):
        import onnx_ir as ir
        from onnxscript import nn
        self.ir = ir
        self.nn = nn
        backend = self

        class Leaf(nn.Module):
            def __init__(self, leaf_id, n_params, name=None):
                super().__init__(name)
                self.w = nn.Parameter([3], data=ir.tensor(np.full([3], param_value(leaf_id, 0), np.float32)))
                if n_params == 2:
                    self.b = nn.Parameter([3], data=ir.tensor(np.full([3], param_value(leaf_id, 1), np.float32)))
                self.leaf_id = leaf_id
                self.raises = None

            def forward(self, op, x):
                if self.raises == "pre":
                    raise Refuse()
                x = op.Add(x, self.w)
                if self.raises == "post":
                    raise Refuse()
                if hasattr(self, "b"):
                    x = op.Add(x, self.b)
                return x

        class Cont(nn.Module):
            def __init__(self, name=None):
                super().__init__(name)
                self.attr_names = []

            def forward(self, op, x):
                for a in self.attr_names:
                    x = backend.call_child(op, getattr(self, a), x)
                return x

        self.Leaf, self.Cont = Leaf, Cont

    def make_list(self, kind, mods=None):
        if kind == "list":
            return self.nn.ModuleList(list(mods)) if mods is not None else self.nn.ModuleList()
        return self.nn.Sequential(*mods) if mods is not None else self.nn.Sequential()

    def call_child(self, op, child, x):
        nn = self.nn
        if isinstance(child, nn.ModuleList) and not isinstance(child, nn.Sequential):
            for m in child:
                x = self.call_child(op, m, x)
            return x
        try:
            return child(op, x)
        except Refuse:
            return x          # fall back to the identity and keep building on the same GraphBuilder


class _TorchBackend:
    name = "torch"

    def __init__(self):
        import torch
        self.torch = torch
        self.entered = set()      # leaf ids whose forward() was entered during the last run (reset by the caller)
        tnn = torch.nn
        self.nn = tnn
        backend = self

        class Leaf(tnn.Module):
            def __init__(self, leaf_id, n_params, name=None):
                super().__init__()
                self.w = tnn.Parameter(torch.full([3], param_value(leaf_id, 0), dtype=torch.float32))
                if n_params == 2:
                    self.b = tnn.Parameter(torch.full([3], param_value(leaf_id, 1), dtype=torch.float32))
                self.leaf_id = leaf_id
                self.raises = None

            def forward(self, x):
                backend.entered.add(self.leaf_id)
                if self.raises == "pre":
                    raise Refuse()
                x = x + self.w
                if self.raises == "post":
                    raise Refuse()
                if hasattr(self, "b"):
                    x = x + self.b
                return x

        class Cont(tnn.Module):
            def __init__(self, name=None):
                super().__init__()
                self.attr_names = []

            def forward(self, x):
                for a in self.attr_names:
                    x = backend.call_child(None, getattr(self, a), x)
                return x

        self.Leaf, self.Cont = Leaf, Cont

    def make_list(self, kind, mods=None):
        if kind == "list":
            return self.nn.ModuleList(list(mods)) if mods is not None else self.nn.ModuleList()
        return self.nn.Sequential(*mods) if mods is not None else self.nn.Sequential()

    def call_child(self, op, child, x):
        tnn = self.nn
        if isinstance(child, tnn.ModuleList):
            for m in child:
                x = self.call_child(op, m, x)
            return x
        try:
            return child(x)
        except Refuse:
            return x


def build(backend, spec, root_name):
    """Construct the tree; returns (root, instances {id: module}, params {(leaf_id, pname): obj})."""
    inst = {}

    def own_name(s, key):
        return key if s.get("named") else None

    def construct(s, key):
        """Create the module for spec s (detached).  key = name it will be attached under."""
        t = s["t"]
        if t == "ref":
            return inst[s["to"]]
        if t == "leaf":
            m = backend.Leaf(s["id"], s["np"], name=own_name(s, key))
            m.raises = s.get("raise")
        elif t == "cont":
            m = backend.Cont(name=own_name(s, key))
            for a, k in zip(ATTRS, s["kids"]):
                attach_attr(m, a, k)
        else:
            m = construct_list(s, parent=None, attr=None)
        inst[s["id"]] = m
        return m

    def construct_list(s, parent, attr):
        """Build a list/seq per its HOW; when parent is given, attach to parent.attr at the right moment."""
        kind, how, kids = s["t"], s.get("how", "ctor"), s["kids"]

        def attach(m):
            if parent is not None:
                setattr(parent, attr, m)
                parent.attr_names.append(attr)
            return m

        if how == "ctor":
            mods = [construct(k, str(i)) for i, k in enumerate(kids)]
            m = attach(backend.make_list(kind, mods))
        elif how == "append":
            m = attach(backend.make_list(kind))
            for i, k in enumerate(kids):
                m.append(construct(k, str(i)))
        elif how == "append_pre":
            m = backend.make_list(kind)
            for i, k in enumerate(kids):
                m.append(construct(k, str(i)))
            attach(m)
        elif how == "extend":
            m = attach(backend.make_list(kind))
            m.extend([construct(k, str(i)) for i, k in enumerate(kids)])
        elif how == "slice":
            extra = backend.Leaf(1000 + s["id"], 1)
            mods = [extra] + [construct(k, str(i + 1)) for i, k in enumerate(kids)]
            full = backend.make_list(kind, mods)
            m = attach(full[1:])
        else:
            raise ValueError(how)
        inst[s["id"]] = m
        return m

    def attach_attr(parent, attr, s):
        if s["t"] in ("list", "seq"):
            construct_list(s, parent, attr)
        else:
            m = construct(s, attr)
            setattr(parent, attr, m)
            parent.attr_names.append(attr)

    t = spec["t"]
    if t == "leaf":
        root = backend.Leaf(spec["id"], spec["np"], name=root_name)
        root.raises = None    # a raising root has no caller inside the tree
        inst[spec["id"]] = root
    elif t == "cont":
        root = backend.Cont(name=root_name)
        for a, k in zip(ATTRS, spec["kids"]):
            attach_attr(root, a, k)
        inst[spec["id"]] = root
    else:
        root = construct_list(spec, None, None)
    return root, inst


_BACKENDS = {}


def backend(name):
    if name not in _BACKENDS:
        _BACKENDS[name] = _OnnxBackend() if name == "onnxscript" else _TorchBackend()
    return _BACKENDS[name]
