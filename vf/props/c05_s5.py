"""C05 rule spaces, part 5."""
