"""C05 rule spaces, part 5: rules.fusion (_layer_norm, _rms_normalization, _rotary_embedding, _gqa)."""
from __future__ import annotations

import numpy as np

from vf.props import c05_spaces as S
from vf.props.c05_mb import ONNX_DT, fill
from vf.props.c05_s3 import _w
from vf.props.c05_spaces import Dim, MB, Skip, Space, arr

INT64_MAX = 9223372036854775807

# ---------------------------------------------------------------------------------------------------
# LayerNormFusion: Mul(Div|Mul-Reciprocal(x-mean, sqrt(var+eps)), scale) -> LayerNormalization(x, scale)
# ---------------------------------------------------------------------------------------------------
_LN_SCALE = {"[D]": [4], "[1,D]": [1, 4], "[]": [], "[S,D]": [3, 4], "[B,S,D]": [2, 3, 4], "[1]": [1], "[S,1]": [3, 1]}


def _ln_dims(rule):
    return [
        Dim("sq", ["mul", "pow"]), Dim("norm", ["recip-mul", "div"]),
        Dim("scale", list(_LN_SCALE)),
        Dim("axes", ["[-1]", "[last]", "[-2]", "mean[-1]var[-2]"], cost=1),
        Dim("keepdims", ["1", "absent", "0"], cost=1),
        Dim("eps", ["1e-5", "0.1", "[1]", "[1,1,1]"], cost=1),
        Dim("dtype", ["f32", "f64", "f16"], cost=1),
        Dim("xrank", [3, 2, 1], cost=1),
        Dim("scale_order", ["ns", "sn"], cost=1),
        Dim("scale_src", ["init", "input"], cost=1),
        Dim("pow_exp", ["2", "2.00001", "2.01", "[2]"], cost=1),
        S.d_ck(1), S.d_inter(4), S.D_DIMS, S.D_VI, S.d_opset(18, 21, 23),
    ]


def _ln_prune(p, rule):
    if p["pow_exp"] != "2" and p["sq"] != "pow":
        return True
    if p["xrank"] == 1 and p["axes"] in ("[-2]", "mean[-1]var[-2]"):
        return True
    if p["xrank"] < 3 and p["scale"] in ("[B,S,D]",) or p["xrank"] < 2 and p["scale"] in ("[S,D]", "[S,1]"):
        return True
    if p["eps"] == "[1,1,1]" and p["xrank"] != 3:
        return True
    return False


def _ln_build(p, rule):
    dt = p["dtype"]
    d = S.npd(dt)
    mb = MB(p["opset"])
    xs = [2, 3, 4][3 - p["xrank"]:]
    x = mb.inp("x", dt, S.shp(p, xs))
    S.bind_like(mb, xs)   # no other runtime size: the shapes of scale / eps are tied to x's dims
    r = len(xs)
    a1 = {"[-1]": [-1], "[last]": [r - 1], "[-2]": [-2], "mean[-1]var[-2]": [-1]}[p["axes"]]
    a2 = [-2] if p["axes"] == "mean[-1]var[-2]" else a1
    kd = {} if p["keepdims"] == "absent" else {"keepdims": int(p["keepdims"])}
    mean = mb.node("ReduceMean", [x, mb.const(arr("i64", a1), "init")], **kd)
    dev = mb.node("Sub", [x, mean])
    if p["sq"] == "mul":
        sq = mb.node("Mul", [dev, dev])
    else:
        ev = {"2": np.array(2, dtype=d), "2.00001": np.array(2.00001, dtype=d), "2.01": np.array(2.01, dtype=d),
              "[2]": np.array([2], dtype=d)}[p["pow_exp"]]
        sq = mb.node("Pow", [dev, mb.const(ev, "init")])
    var = mb.node("ReduceMean", [sq, mb.const(arr("i64", a2), "init")], **kd)
    ev = {"1e-5": np.array(1e-5, dtype=d), "0.1": np.array(0.1, dtype=d), "[1]": np.array([1e-5], dtype=d),
          "[1,1,1]": np.full([1, 1, 1], 1e-5, dtype=d)}[p["eps"]]
    eps = mb.const(ev, S.kinds(p, 1)[0], alts=[ev + d(1.0)])
    vpe = mb.node("Add", [var, eps])
    std = mb.node("Sqrt", [vpe])
    if p["norm"] == "div":
        nrm = mb.node("Div", [dev, std])
    else:
        nrm = mb.node("Mul", [dev, mb.node("Reciprocal", [std])])
    ss = _LN_SCALE[p["scale"]]
    ss = ss[len(ss) - min(len(ss), r):] if len(ss) > r else ss
    sv = (_w(dt, ss, salt=4, scale=0.5) + d(1.5)).astype(d)
    sc = mb.const(sv, "init") if p["scale_src"] == "init" else mb.inp("scale", dt, ss)
    mb.out(mb.node("Mul", [nrm, sc] if p["scale_order"] == "ns" else [sc, nrm]))
    S.expose(mb, p, [mean, dev, var, std])
    return mb


def _ln_near(p, rule):
    return p["axes"] != "[-1]" or p["keepdims"] == "0" or p["scale"] not in ("[D]",) or p["pow_exp"] not in ("2",) \
        or S.is_nonconst(p) or p["dtype"] == "f16" or p["scale_order"] != "ns" or p["inter"] != "none"


def _ln_klass(nd, p, rule):
    if nd.get("pow_exp") == "2.00001":
        return "pow_exp=2.00001"
    if "scale" in nd and set(nd) <= {"scale", "xrank", "sq", "norm", "eps", "dtype"}:
        return "scale=" + nd["scale"]
    if "eps" in nd and set(nd) <= {"eps", "xrank", "sq", "norm", "dtype"}:
        return "eps=" + nd["eps"]
    return None


S.register(Space("layer_norm", _ln_dims, _ln_build, near=_ln_near, prune=_ln_prune, klass=_ln_klass, accum=True),
           rule_ids=["fusion._layer_norm.LayerNormFusion"])


# ---------------------------------------------------------------------------------------------------
# LayerNormBiasFusion: LayerNormalization(x, scale) + bias -> LayerNormalization(x, scale, bias)
# ---------------------------------------------------------------------------------------------------
_LB_BIAS = {"[D]": [4], "[1,D]": [1, 4], "[]": [], "[S,D]": [3, 4], "[B,S,D]": [2, 3, 4], "[1,1,1,D]": [1, 1, 1, 4],
            "[S,1]": [3, 1], "[1]": [1]}


def _lb_dims(rule):
    return [
        Dim("bias", list(_LB_BIAS)),
        Dim("axis", ["absent", -1, 1, 0, -2]),
        Dim("outputs", [1, 3, 2]),
        Dim("has_bias", ["no", "yes"], cost=1),
        Dim("add_order", ["lb", "bl"], cost=1),
        Dim("eps", ["absent", 0.1], cost=1), Dim("stash", ["absent", 1], cost=1),
        Dim("dtype", ["f32", "f64", "f16"], cost=1),
        Dim("bias_src", ["init", "input"], cost=1),
        S.d_inter(1), S.D_DIMS, S.D_VI, S.d_opset(18, 17, 21, 23),
    ]


def _lb_build(p, rule):
    dt = p["dtype"]
    d = S.npd(dt)
    mb = MB(p["opset"])
    xs = [2, 3, 4]
    x = mb.inp("x", dt, S.shp(p, xs))
    S.bind_like(mb, xs)
    ax = -1 if p["axis"] == "absent" else p["axis"]
    nshape = xs[ax % 3:]
    sc = mb.const((_w(dt, nshape, salt=4, scale=0.5) + d(1.5)).astype(d), "init")
    ins = [x, sc]
    if p["has_bias"] == "yes":
        ins.append(mb.const(_w(dt, nshape, salt=5, scale=1.0), "init"))
    attrs = {}
    if p["axis"] != "absent":
        attrs["axis"] = int(p["axis"])
    if p["eps"] != "absent":
        attrs["epsilon"] = float(p["eps"])
    if p["stash"] != "absent":
        attrs["stash_type"] = 1
    outs = mb.node("LayerNormalization", ins, n_out=p["outputs"], **attrs)
    ln = outs if p["outputs"] == 1 else outs[0]
    bs = _LB_BIAS[p["bias"]]
    bv = _w(dt, bs, salt=6, scale=1.0)
    b = mb.const(bv, "init") if p["bias_src"] == "init" else mb.inp("bias", dt, bs)
    mb.out(mb.node("Add", [ln, b] if p["add_order"] == "lb" else [b, ln]))
    if p["outputs"] != 1:
        for o in outs[1:]:
            mb.out(o)
    S.expose(mb, p, [ln])
    return mb


def _lb_near(p, rule):
    ax = -1 if p["axis"] == "absent" else p["axis"]
    nshape = [2, 3, 4][ax % 3:]
    return _LB_BIAS[p["bias"]] != nshape or p["has_bias"] == "yes" or p["add_order"] == "bl" or p["inter"] != "none"


def _lb_klass(nd, p, rule):
    if "bias" in nd and set(nd) <= {"bias", "axis", "bias_src", "dtype"}:
        return "bias=" + nd["bias"] + ("" if "axis" not in nd else f",axis={nd['axis']}")
    return None


S.register(Space("layer_norm_bias", _lb_dims, _lb_build, near=_lb_near, klass=_lb_klass, accum=True),
           rule_ids=["fusion._layer_norm.LayerNormBiasFusion"])


# ---------------------------------------------------------------------------------------------------
# RmsNormFusion1/2 -> RMSNormalization (opset 23)
# ---------------------------------------------------------------------------------------------------
def _rms_dims(rule):
    return [
        Dim("casts", ["none", "both", "first", "last"]),
        Dim("xdt", ["f32", "f16", "f64"]),
        Dim("compute", ["f32", "f64", "f16"]),
        Dim("scale_order", ["ns", "sn"]),
        Dim("eps", ["1e-6", "[1]", "0.1"], cost=1),
        Dim("scale", ["[D]", "[]", "[S,D]", "[1,D]"], cost=1),
        Dim("red_attrs", ["kd1-noop0", "kd1", "none", "kd0-noop0"], cost=1),
        Dim("axes", ["[-1]", "[last]", "[-2]"], cost=1),
        Dim("pow_exp", ["2", "2.00001", "2.01", "int2"], cost=1),
        Dim("scale_dt", ["same", "f32"], cost=1),
        S.d_ck(1), S.d_inter(3), S.D_DIMS, S.D_VI, S.d_opset(23, 18, 21),
    ]


def _rms_prune(p, rule):
    if p["casts"] == "none" and p["compute"] != "f32":
        return True
    if p["casts"] in ("both", "first", "last") and p["compute"] == p["xdt"]:
        return True
    return False


def _rms_build(p, rule):
    mb = MB(p["opset"])
    xdt = p["xdt"]
    xs = [2, 3, 4]
    x = mb.inp("x", xdt, S.shp(p, xs))
    S.bind_like(mb, xs)
    cdt = xdt
    xc = x
    if p["casts"] in ("both", "first"):
        cdt = p["compute"]
        xc = mb.node("Cast", [x], to=int(ONNX_DT[cdt]))
    d = S.npd(cdt)
    ev = {"2": np.array(2.0, dtype=d), "2.00001": np.array(2.00001, dtype=d), "2.01": np.array(2.01, dtype=d),
          "int2": np.array(2, dtype=np.int64)}[p["pow_exp"]]
    sq = mb.node("Pow", [xc, mb.const(ev, "init")])
    ra = {"kd1-noop0": {"keepdims": 1, "noop_with_empty_axes": 0}, "kd1": {"keepdims": 1}, "none": {},
          "kd0-noop0": {"keepdims": 0, "noop_with_empty_axes": 0}}[p["red_attrs"]]
    axes = {"[-1]": [-1], "[last]": [2], "[-2]": [-2]}[p["axes"]]
    ms = mb.node("ReduceMean", [sq, mb.const(arr("i64", axes), "init")], **ra)
    epsv = {"1e-6": np.array(1e-6, dtype=d), "[1]": np.array([1e-6], dtype=d), "0.1": np.array(0.1, dtype=d)}[p["eps"]]
    eps = mb.const(epsv, S.kinds(p, 1)[0], alts=[epsv + d(1.0)])
    rms = mb.node("Sqrt", [mb.node("Add", [ms, eps])])
    rec = mb.node("Reciprocal", [rms])
    nrm = mb.node("Mul", [xc, rec])
    odt = cdt
    if p["casts"] in ("both", "last"):
        odt = xdt if p["casts"] == "both" else p["compute"]
        nrm = mb.node("Cast", [nrm], to=int(ONNX_DT[odt]))
    sdt = odt
    ss = {"[D]": [4], "[]": [], "[S,D]": [3, 4], "[1,D]": [1, 4]}[p["scale"]]
    sc = mb.const((_w(sdt, ss, salt=4, scale=0.5) + S.npd(sdt)(1.5)).astype(S.npd(sdt)), "init")
    mb.out(mb.node("Mul", [nrm, sc] if p["scale_order"] == "ns" else [sc, nrm]))
    S.expose(mb, p, [sq, ms, rec])
    return mb


def _rms_near(p, rule):
    want = "ns" if rule["id"].endswith("1") else "sn"
    return p["scale_order"] != want or p["axes"] != "[-1]" or p["red_attrs"] != "kd1-noop0" or p["pow_exp"] != "2" \
        or p["scale"] != "[D]" or S.is_nonconst(p) or p["opset"] < 23 or p["inter"] != "none"


_PREC = {"f16": 2e-3, "f32": 1e-5, "f64": 1e-9}


def _rms_tol(p, rule):
    """The original computes in the Cast's type: its own result is only that accurate."""
    if p["casts"] in ("both", "first", "last"):
        lo = max(_PREC[p["compute"]], _PREC[p["xdt"]])
        out = p["xdt"] if p["casts"] == "both" else (p["compute"] if p["casts"] == "first" else p["compute"])
        return max(1.0, lo / _PREC[out])
    return 1.0


def _rms_klass(nd, p, rule):
    nd = {k: v for k, v in nd.items() if k != "scale_order"}
    if nd.get("pow_exp") == "2.00001":
        return "pow_exp=2.00001"
    if nd.get("casts") in ("first", "last") and set(nd) <= {"casts", "xdt", "compute"}:
        return "casts=" + nd["casts"] + "-only"
    if "opset" in nd and nd["opset"] < 23 and set(nd) <= {"opset", "casts", "xdt", "compute"}:
        return "opset<23"
    return ",".join(f"{k}={v}" for k, v in nd.items()) or "default"


_RMS = S.register(Space("rms_norm", _rms_dims, _rms_build, near=_rms_near, prune=_rms_prune, klass=_rms_klass, accum=True),
                  rule_ids=["fusion._rms_normalization.RmsNormFusion1", "fusion._rms_normalization.RmsNormFusion2"])
_RMS.tol = _rms_tol


# ---------------------------------------------------------------------------------------------------
# RotaryEmbedding23: x*cos + rotate_half(x)*sin -> RotaryEmbedding(x, Cos(freqs), Sin(freqs))
# ---------------------------------------------------------------------------------------------------
def _ro_dims(rule):
    return [
        Dim("D", [4, 6, 5, 2]),
        Dim("unsq", ["[1],[1]", "[0],[1]", "[1],[2]", "1,1"]),
        Dim("split", ["half", "start2+1", "end1-1", "start1=1"]),
        Dim("end2", ["D", "MAX", "D-1"], cost=1),
        Dim("freqs", ["[B,S,h]", "[1,S,h]", "[S,h]"], cost=1),
        Dim("slice_axes", ["[3]", "[-1]"], cost=1),
        Dim("concat_axis", [-1, 3], cost=1),
        Dim("dtype", ["f32", "f16", "f64"], cost=1),
        Dim("heads", ["static", "symbolic"], cost=1),
        Dim("orders", ["default", "cos-first", "rot-first"], cost=1),
        S.d_ck(4), S.d_inter(2), S.D_DIMS, S.D_VI, S.d_opset(23, 18, 21),
    ]


def _ro_prune(p, rule):
    return p["D"] % 2 == 1 and False


def _ro_build(p, rule):
    dt = p["dtype"]
    mb = MB(p["opset"])
    B, H, Sq, D = 2, 3, 2, p["D"]
    h = D // 2
    xs = [B, H, Sq, D]
    xdecl = S.shp(p, xs)
    if p["heads"] == "symbolic":
        xdecl[1] = "H"
    x = mb.inp("x", dt, xdecl)
    S.bind_like(mb, xs)
    mb.bindings[0]["H"] = H
    fshape = {"[B,S,h]": [B, Sq, D - h], "[1,S,h]": [1, Sq, D - h], "[S,h]": [Sq, D - h]}[p["freqs"]]
    if D % 2:
        raise Skip("odd head size cannot be covered by Concat(freqs, freqs)")
    freqs = mb.inp("freqs", dt, fshape)
    fr = mb.node("Concat", [freqs, freqs], axis=-1)
    cos = mb.node("Cos", [fr])
    sin = mb.node("Sin", [fr])
    k = S.kinds(p, 4)
    u = p["unsq"]
    if u == "1,1":
        o1 = mb.const(arr("i64", 1), k[0])
        o2 = mb.const(arr("i64", 1), "init")
    else:
        a, b = u.split("],[")
        o1 = mb.const(arr("i64", [int(a.strip("[]"))]), k[0], alts=[arr("i64", [0])])
        o2 = mb.const(arr("i64", [int(b.strip("[]"))]), "init")
    cos4 = mb.node("Unsqueeze", [cos, o1])
    sin4 = mb.node("Unsqueeze", [sin, o2])
    s1, e1, s2 = 0, h, h
    if p["split"] == "start2+1":
        s2 = h + 1
    elif p["split"] == "end1-1":
        e1 = h - 1
    elif p["split"] == "start1=1":
        s1 = 1
    e2 = {"D": D, "MAX": INT64_MAX, "D-1": D - 1}[p["end2"]]
    axv = [3] if p["slice_axes"] == "[3]" else [-1]
    axc = mb.const(arr("i64", axv), "init")
    one = mb.const(arr("i64", [1]), "init")
    x1 = mb.node("Slice", [x, mb.const(arr("i64", [s1]), k[1], alts=[arr("i64", [1])]), mb.const(arr("i64", [e1]), k[2], alts=[arr("i64", [max(e1 - 1, 1)])]), axc, one])
    x2 = mb.node("Slice", [x, mb.const(arr("i64", [s2]), k[3], alts=[arr("i64", [max(s2 - 1, 0)])]), mb.const(arr("i64", [e2]), "init"), axc, one])
    neg = mb.node("Neg", [x2])
    rot = mb.node("Concat", [neg, x1], axis=p["concat_axis"])
    o = p["orders"]
    t1 = mb.node("Mul", [x, cos4] if o != "cos-first" else [cos4, x])
    t2 = mb.node("Mul", [rot, sin4])
    mb.out(mb.node("Add", [t1, t2] if o != "rot-first" else [t2, t1]))
    S.expose(mb, p, [rot, cos4])
    return mb


def _ro_near(p, rule):
    return p["unsq"] != "[1],[1]" or p["split"] != "half" or p["end2"] == "D-1" or S.is_nonconst(p) or p["heads"] != "static" \
        or p["freqs"] != "[B,S,h]"


def _ro_klass(nd, p, rule):
    if "opset" in nd and nd["opset"] < 23 and len(nd) == 1:
        return "opset<23"
    return None


S.register(Space("rotary_embedding", _ro_dims, _ro_build, near=_ro_near, klass=_ro_klass),
           rule_ids=["fusion._rotary_embedding.RotaryEmbedding23"])


# ---------------------------------------------------------------------------------------------------
# PartialRotaryEmbedding23Fusion: Concat(RotaryEmbedding(x[..., :e]), x[..., e:]) -> RotaryEmbedding(x, rotary_embedding_dim=e)
# ---------------------------------------------------------------------------------------------------
def _pr_dims(rule):
    return [
        Dim("e1", [4, 2, 8, 6]),
        Dim("s2", ["=e1", "e1+1", "e1-1"]),
        Dim("interleaved", ["absent", 0, 1]),
        Dim("red", ["absent", "set"]),
        Dim("num_heads", ["absent", "set"], cost=1),
        Dim("pos_ids", ["absent", "given"], cost=1),
        Dim("start1", ["[0]", "[1]"], cost=1), Dim("end2", ["MAX", "D"], cost=1),
        Dim("concat_axis", [-1, 3], cost=1),
        Dim("dtype", ["f32", "f16"], cost=1),
        S.d_ck(2), S.d_inter(3), S.D_DIMS, S.D_VI, S.d_opset(23, 21),
    ]


def _pr_prune(p, rule):
    return p["e1"] == 8 and p["s2"] == "e1+1"


def _pr_build(p, rule):
    dt = p["dtype"]
    mb = MB(p["opset"])
    B, H, Sq, D = 2, 3, 2, 8
    e1 = p["e1"]
    s2 = {"=e1": e1, "e1+1": e1 + 1, "e1-1": e1 - 1}[p["s2"]]
    xs = [B, H, Sq, D]
    axv = [3]
    x = mb.inp("x", dt, S.shp(p, xs))
    S.bind_like(mb, xs)
    k = S.kinds(p, 2)
    axc = mb.const(arr("i64", axv), "init")
    one = mb.const(arr("i64", [1]), "init")
    st1 = mb.const(arr("i64", [0] if p["start1"] == "[0]" else [1]), "init")
    p1 = mb.node("Slice", [x, st1, mb.const(arr("i64", [e1]), k[0], alts=[arr("i64", [max(e1 - 2, 2)])]), axc, one])
    en2 = mb.const(arr("i64", [INT64_MAX] if p["end2"] == "MAX" else [D]), "init")
    p2 = mb.node("Slice", [x, mb.const(arr("i64", [s2]), k[1], alts=[arr("i64", [max(s2 - 2, 0)])]), en2, axc, one])
    red = e1 - (1 if p["start1"] == "[1]" else 0)
    rdim = red if p["red"] == "absent" else max(2, red - 2)
    hh = rdim // 2
    if p["pos_ids"] == "given":
        cos = mb.inp("cos", dt, [5, hh])
        sin = mb.inp("sin", dt, [5, hh])
        pos = mb.inp("pos", "i64", [B, Sq], values=[np.array([[0, 1], [2, 4]], dtype=np.int64)])
        ins = [p1, cos, sin, pos]
    else:
        cos = mb.inp("cos", dt, [B, Sq, hh])
        sin = mb.inp("sin", dt, [B, Sq, hh])
        ins = [p1, cos, sin]
    attrs = {}
    if p["interleaved"] != "absent":
        attrs["interleaved"] = int(p["interleaved"])
    if p["red"] == "set":
        attrs["rotary_embedding_dim"] = rdim
    if p["num_heads"] == "set":
        attrs["num_heads"] = H
    rope = mb.node("RotaryEmbedding", ins, **attrs)
    mb.out(mb.node("Concat", [rope, p2], axis=p["concat_axis"]))
    S.expose(mb, p, [p1, rope, p2])
    return mb


def _pr_near(p, rule):
    return p["s2"] != "=e1" or p["interleaved"] == 1 or p["red"] == "set" or p["start1"] != "[0]" or S.is_nonconst(p) \
        or p["inter"] != "none"


S.register(Space("partial_rotary_embedding", _pr_dims, _pr_build, near=_pr_near, prune=_pr_prune),
           rule_ids=["fusion._rotary_embedding.PartialRotaryEmbedding23Fusion"])


# ---------------------------------------------------------------------------------------------------
# ONNXGQA: Attention over Concat/Unsqueeze/Expand/Reshape'd key & value -> Attention with past inputs
# ---------------------------------------------------------------------------------------------------
def _gq_dims(rule):
    return [
        Dim("heads", ["4/2", "2/2", "4/1", "4/4"]),
        Dim("mask", ["absent", "float", "bool"]),
        Dim("causal", ["absent", 1]),
        # axes operand of Unsqueeze: the pattern's literal 2 only matches a 0-d tensor (default: the form that fires)
        Dim("unsq", ["scalar2", "[2]", "scalar1"]),   # scalar1: heads replicated along a new axis 1 (tiled order)
        Dim("P", [2, 1], cost=1), Dim("S", [3, 1], cost=1),
        Dim("scale", ["absent", 0.5], cost=1),
        Dim("vd", ["same", "differs"], cost=1),
        Dim("dtype", ["f32", "f16"], cost=1),
        Dim("outs", ["all", "attn-only"], cost=1),
        S.d_ck(2), S.d_inter(2), S.D_DIMS, S.D_VI, S.d_opset(23, 24),
    ]


def _gq_prune(p, rule):
    return False


def _gq_build(p, rule):
    dt = p["dtype"]
    mb = MB(p["opset"])
    H, Hkv = [int(v) for v in p["heads"].split("/")]
    G = H // Hkv
    B, Sq, P, D = 2, p["S"], p["P"], 4
    Dv = D if p["vd"] == "same" else 6
    T = Sq + P
    q = mb.inp("q", dt, S.shp(p, [B, H, Sq, D]))
    kk = mb.inp("k", dt, S.shp(p, [B, Hkv, Sq, D]))
    v = mb.inp("v", dt, S.shp(p, [B, Hkv, Sq, Dv]))
    pk = mb.inp("pk", dt, S.shp(p, [B, Hkv, P, D]))
    pv = mb.inp("pv", dt, S.shp(p, [B, Hkv, P, Dv]))
    S.bind_like(mb, [B])
    kinds = S.kinds(p, 2)

    def rep(past, cur, dd, kind):
        present = mb.node("Concat", [past, cur], axis=-2)
        if p["unsq"] == "scalar2":
            axc = mb.const(arr("i64", 2), "init")
            eshape = [B, Hkv, G, T, dd]
        elif p["unsq"] == "[2]":
            axc = mb.const(arr("i64", [2]), "init")
            eshape = [B, Hkv, G, T, dd]
        else:
            axc = mb.const(arr("i64", 1), "init")
            eshape = [B, G, Hkv, T, dd]
        un = mb.node("Unsqueeze", [present, axc])
        ex = mb.node("Expand", [un, mb.const(arr("i64", eshape), kind, alts=[arr("i64", eshape)])])
        full = mb.node("Reshape", [ex, mb.const(arr("i64", [B, H, T, dd]), "init")])
        return present, full
    pkey, kfull = rep(pk, kk, D, kinds[0])
    pval, vfull = rep(pv, v, Dv, kinds[1])
    ins = [q, kfull, vfull]
    if p["mask"] == "float":
        ins.append(mb.inp("mask", dt, [Sq, T]))
    elif p["mask"] == "bool":
        m = np.ones([Sq, T], dtype=bool)
        m[0, T - 1] = False
        ins.append(mb.inp("mask", "bool", [Sq, T], values=[m]))
    attrs = {}
    if p["causal"] != "absent":
        attrs["is_causal"] = 1
    if p["scale"] != "absent":
        attrs["scale"] = float(p["scale"])
    att = mb.node("Attention", ins, **attrs)
    mb.out(att)
    if p["outs"] == "all":
        mb.out(pkey)
        mb.out(pval)
    S.expose(mb, p, [kfull, vfull])
    return mb


def _gq_near(p, rule):
    return p["unsq"] == "scalar1" or p["vd"] != "same" or S.is_nonconst(p) or p["causal"] == 1 or p["inter"] != "none"


def _gq_klass(nd, p, rule):
    if "inter" in nd and set(nd) <= {"inter"}:
        return "inter=expanded-key/value-has-another-consumer"
    return None


S.register(Space("gqa", _gq_dims, _gq_build, near=_gq_near, prune=_gq_prune, klass=_gq_klass, accum=True),
           rule_ids=["fusion._gqa.ONNXGQA"])
