"""C18: the function alphabet for op.call / op.call_inline.

Each function exists three times and the three must say the same thing:
  SPEC[name]       the meaning, in the trace language of c18_trace (used by the replay oracle)
  script version   hand-written @script source below (needs a real file for inspect.getsource)
  ir version       built by builder.build_function from SPEC by c18_trace.build_ir_function
"""
from __future__ import annotations

from onnxscript import opset23 as op
from onnxscript import script
from onnxscript.values import Opset

_dom = Opset("vf.script", 1)

# meaning: list of calls over formal inputs (ids = parameter names) and attribute references {"ref": name}
SPEC = {
    "leaky": {
        "params": ["X"],
        "attrs": {"alpha": {"type": "float", "default": 0.25}},
        "calls": [
            {"k": "op", "id": 0, "op": "LeakyRelu", "args": [{"v": "X"}], "attrs": {"alpha": {"ref": "alpha"}}, "out": 1},
            {"k": "op", "id": 1, "op": "Add", "args": [{"v": "%0.0"}, {"lit": 1.0}], "attrs": {}, "out": 1},
        ],
        "ret": ["%1.0"],
    },
    "addmul": {
        "params": ["X", "Y"],
        "attrs": {},
        "calls": [
            {"k": "op", "id": 0, "op": "Add", "args": [{"v": "X"}, {"v": "Y"}], "attrs": {}, "out": 1},
            {"k": "op", "id": 1, "op": "Mul", "args": [{"v": "X"}, {"v": "Y"}], "attrs": {}, "out": 1},
        ],
        "ret": ["%0.0", "%1.0"],
    },
    "softax": {
        "params": ["X"],
        "attrs": {"axis": {"type": "int", "default": None}},      # required attribute
        "calls": [
            {"k": "op", "id": 0, "op": "Softmax", "args": [{"v": "X"}], "attrs": {"axis": {"ref": "axis"}}, "out": 1},
            {"k": "op", "id": 1, "op": "Mul", "args": [{"v": "%0.0"}, {"lit": 2.0}], "attrs": {}, "out": 1},
        ],
        "ret": ["%1.0"],
    },
    "cumax": {
        "params": ["X"],
        "attrs": {"axis": {"type": "int", "default": 0}, "keep": {"type": "int", "default": 0}},
        "calls": [
            {"k": "op", "id": 0, "op": "ReduceMax", "args": [{"v": "X"}], "attrs": {"keepdims": {"ref": "keep"}}, "out": 1},
            {"k": "op", "id": 1, "op": "Softmax", "args": [{"v": "X"}], "attrs": {"axis": {"ref": "axis"}}, "out": 1},
            {"k": "op", "id": 2, "op": "Add", "args": [{"v": "%1.0"}, {"v": "%0.0"}], "attrs": {}, "out": 1},
        ],
        "ret": ["%2.0", "%0.0"],
    },
    # one node and one literal; the build_function version declares a typed formal, so no CastLike is needed and the
    # body is exactly [lifted Constant, Mul]
    "scale2": {
        "params": ["X"],
        "param_types": {"X": ["float32", [2, 3]]},
        "attrs": {},
        "calls": [
            {"k": "op", "id": 0, "op": "Mul", "args": [{"v": "X"}, {"lit": 2.0}], "attrs": {}, "out": 1},
        ],
        "ret": ["%0.0"],
    },
}


@script(_dom, default_opset=op)
def leaky(X, alpha: float = 0.25):
    t = op.LeakyRelu(X, alpha=alpha)
    return op.Add(t, 1.0)


@script(_dom, default_opset=op)
def addmul(X, Y):
    a = op.Add(X, Y)
    b = op.Mul(X, Y)
    return a, b


@script(_dom, default_opset=op)
def softax(X, axis: int):
    t = op.Softmax(X, axis=axis)
    return op.Mul(t, 2.0)


@script(_dom, default_opset=op)
def cumax(X, axis: int = 0, keep: int = 0):
    m = op.ReduceMax(X, keepdims=keep)
    t = op.Softmax(X, axis=axis)
    r = op.Add(t, m)
    return r, m


@script(_dom, default_opset=op)
def scale2(X):
    return op.Mul(X, 2.0)


SCRIPT = {"leaky": leaky, "addmul": addmul, "softax": softax, "cumax": cumax, "scale2": scale2}
