"""C08: minimised argument classes for findings.

Every decided case of a batch (all enumerated argument tuples of one overload) carries a feature dict
{label: value}.  For the failing ones a small set of conjunctions over (possibly abstracted) feature values is
computed such that (a) every failing case is in one of them, (b) *no passing case of the batch is in any*
(cases failing in another way may be: they get their own key under their own kind) -
each class is a sound description of a failing region of the enumerated domain, not of a tensor value.
Expansion is greedy (drop a feature, else replace the value by the coarsest abstraction that keeps the class
pure), tried in two feature orders; a greedy set cover then keeps few classes.  Deterministic.
"""
from __future__ import annotations

import re

_FLOATS = ("f16", "f32", "f64", "bf16")
_DT_NAMES = ("f16", "f32", "f64", "bf16", "i8", "i16", "i32", "i64", "u8", "bool")
_NUM = re.compile(r"-?\d+(\.\d+)?(e-?\d+)?")
_INT = re.compile(r"-?\d+")


def _shape_abs(dims):
    numel = 1
    for d in dims:
        numel *= d
    out = ["numel>0" if numel > 0 else "numel=0", "rank>0" if dims else "0d"]
    if not dims:
        pass
    elif numel == 0:
        out.append("empty")
    elif numel == 1:
        out.append("single")
    else:
        out.append("multi")
    out.append(f"rank={len(dims)}")
    return out


def _parse_shape(v):
    inner = v[v.index("(") + 1:v.rindex(")")]
    return [int(d) for d in inner.split(",") if d.strip()]


def abstractions(label, v):
    """Coarser descriptions of a feature value, coarsest first (the exact value is not included)."""
    if not isinstance(v, str):
        v = str(v)
    if v in _DT_NAMES:
        if v in _FLOATS:
            return ["float"]
        if v == "bool":
            return ["nonfloat"]
        return ["nonfloat", "int"]
    if v.startswith("(") and v.endswith(")"):
        try:
            return _shape_abs(_parse_shape(v))
        except ValueError:
            return []
    if v.startswith("t(") and v.endswith(")"):
        try:
            return ["tensor"] + ["t:" + a for a in _shape_abs(_parse_shape(v))]
        except ValueError:
            return ["tensor"]
    if v.startswith("py:"):
        parts = v.split(":")
        out = ["py"]
        if len(parts) >= 3:
            out.append("py:" + parts[1])
        return out
    if v in ("omit", "None", "False"):
        return ["off"] if v == "False" else ["off", "absent"]
    if _NUM.fullmatch(v):
        out = ["given"]
        if float(v) != 1:
            out.append("ne1")
        out.append("neg" if v.startswith("-") else "nonneg")
        return out
    if v.startswith("[") and v.endswith("]"):
        inner = [x.strip() for x in v[1:-1].split(",") if x.strip()]
        out = ["given", "list", "len>0" if inner else "len=0"]
        if len(inner) >= 2:
            out.append("len>=2")  # 'several axes / sizes' before the exact count
        out.append(f"len={len(inner)}")
        if inner and all(_INT.fullmatch(x) for x in inner):
            if "0" in inner:
                out.append("list:has0")
            out.append("list:hasneg" if any(x.startswith("-") for x in inner) else "list:nonneg")
        return out
    return ["given"]


def minimise_classes(cases, fails):
    """cases: feature dicts of the decided cases of a batch; fails: parallel list of failure kind or None.
    -> parallel list of class strings (None for passing cases)."""
    labels = []
    for c in cases:
        for k in c:
            if k not in labels:
                labels.append(k)
    n = len(cases)
    out = [None] * n
    memo = {}
    abs_cache = {}

    def absof(k, v):
        key = (k, v)
        if key not in abs_cache:
            abs_cache[key] = abstractions(k, v)
        return abs_cache[key]

    def matches(cl, d):
        for k, (op, v) in cl.items():
            if k not in d:
                return False
            if op == "=":
                if d[k] != v:
                    return False
            elif v not in absof(k, d[k]):
                return False
        return True

    def pure(kind, cl):
        key = (kind, tuple(sorted((k, op, str(v)) for k, (op, v) in cl.items())))
        if key in memo:
            return memo[key]
        ok = True
        for j in range(n):
            if fails[j] is None and matches(cl, cases[j]):
                ok = False
                break
        memo[key] = ok
        return ok

    def expand(i, order):
        kind = fails[i]
        c = cases[i]
        cls = {k: ("=", c[k]) for k in labels if k in c}
        for k in order:
            if k not in cls:
                continue
            trial = dict(cls)
            del trial[k]
            if pure(kind, trial):
                cls = trial
                continue
            for av in absof(k, c[k]):
                trial = dict(cls)
                trial[k] = ("~", av)
                if pure(kind, trial):
                    cls = trial
                    break
        return {k: cls[k] for k in labels if k in cls}

    def render(cls):
        return ",".join(f"{k}{op}{v}" for k, (op, v) in cls.items()) or "any"

    failing = [i for i in range(n) if fails[i] is not None]
    cands = {}
    seen_exact = {}
    for i in failing:
        sig = (fails[i], tuple(sorted(cases[i].items())))
        if sig in seen_exact:
            continue
        seen_exact[sig] = True
        # a failing case already inside a candidate class needs no expansion of its own
        if any(kind == fails[i] and matches(cl, cases[i]) for (kind, _), cl in cands.items()):
            continue
        for order in (labels, labels[::-1]):
            cls = expand(i, order)
            cands.setdefault((fails[i], render(cls)), cls)
    cover = {}
    for (kind, name), cls in cands.items():
        cover[(kind, name)] = {i for i in failing if fails[i] == kind and matches(cls, cases[i])}
    uncovered = set(failing)
    order = sorted(cover, key=lambda k: (len(k[1]), k[1]))
    while uncovered:
        best = None
        for key in order:
            gain = len(cover[key] & uncovered)
            if gain and (best is None or gain > best[0]):
                best = (gain, key)
        _, key = best
        for i in cover[key] & uncovered:
            out[i] = key[1]
        uncovered -= cover[key]
    return out
