"""C20 - save_model_with_external_data round-trips and never disturbs the in-memory model.

Fault enumeration on the real code: for every (model, destination, verbose, path kind) configuration the save
is first run under a recording file-system layer (run 0: K faultable calls), then once per fault point
k = 0..K-1 with OSError injected at exactly that call, once per Python-level ``write`` with a short write, and
once per byte budget (RLIMIT_FSIZE) at every tensor boundary of the files produced, to reach numpy's C-level
writes.  Every run builds a fresh model in a fresh temporary directory.
"""
from __future__ import annotations

import io
import logging
import os
import pathlib
import shutil
import sys
import tempfile

from vf import explore

ID = "C20"
LEVEL = "fault_enumeration"
RULE = ("model alphabet (single initializer dtype{f32,i64,f16,bool} x size{0,scalar,8B,1KiB,64KiB}; mixed; deserialized; "
        "lazy; >1MiB aligned; shared tensor object; subgraph initializers; initializer that is a graph input; string; "
        "already-external tensors to another file / another directory / the destination data file itself, above and "
        "below the 256 B threshold, touched or not; uninitialized in main graph / with others / subgraph only) x "
        "destination{fresh, existing stale files, parent directory missing} x verbose{F,T} x path{str, Path, relative, "
        "relative nested} (deviation bound over the last three) x EVERY fault point of the recorded file-system call "
        "sequence (raise), every Python-level write (short write), every byte budget at a tensor/file boundary "
        "(RLIMIT_FSIZE).  distinct_nontrivial = distinct (configuration, fault) pairs that reached the oracle")
ASSUMPTIONS = ["onnx_ir serde.serialize_model / onnx.load are trusted to *describe* a model (they are not the code that "
               "decides the property); tensor bytes are compared against bytes the harness generated itself",
               "faults are injected at Python-visible file-system calls under the scratch directory (open, file-object "
               "methods, os.replace/rename/remove/makedirs/..., mmap) and, for C-level writes, through RLIMIT_FSIZE; "
               "the stat family is recorded but never faulted",
               "atomicity of the destination files after a failed save is not claimed by the property and not checked"]

THRESH = 256
_DT = ["f32", "i64", "f16", "bool"]
_SZ = ["0", "scalar", "8B", "1K", "64K"]
SINGLE = [f"one-{d}-{s}" for d in _DT for s in _SZ]
OTHER = ["mix", "deser", "lazy", "big-align", "unnamed", "shared", "subgraph", "init-input", "str-small", "str-big",
         "ext-other", "ext-otherdir", "ext-other-small", "ext-other-touched",
         "ext-dest", "ext-dest-small", "ext-dest-touched",
         # a model exported earlier into ANOTHER directory under the same file name and loaded back: every large
         # initializer is external to `<other dir>/<model file name>.data`, the rest is small (seeded C20h: a shortcut
         # compared only the file NAME of the external location); `reloaded` = built by hand, `resaved` = really
         # written by the API into a staging directory and read back with ir.load
         "reloaded-samename-otherdir", "resaved-otherdir",
         "uninit", "uninit-mix", "uninit-sub",
         # subgraph shapes: zero-node branches that return their own initializer, the uninitialized one in the else branch,
         # two levels deep (If inside an If branch)
         "subgraph-empty", "subgraph-deep", "uninit-sub-empty", "uninit-sub-else", "uninit-sub-deep", "uninit-sub-deep-empty",
         # sibling branches owning initializers of the SAME name (separate scopes, legal): all initialized, the
         # uninitialized one first / second in traversal order, and at the deeper level (seeded C20e keyed by name)
         "subgraph-samename", "uninit-sub-samename", "uninit-sub-samename-else", "uninit-sub-samename-deep",
         # histories of the SAME model object: it passes the module's check_model() / is saved once successfully (to
         # another directory) while fully initialized, then an initializer loses its value, then it is saved
         # (seeded C20f: a "validated" marker left on the model let the save skip its guard)
         "uninit-after-check", "uninit-sub-after-check", "uninit-after-save", "uninit-sub-after-save",
         "mix-after-check", "mix-after-save"]
MODELS = SINGLE + OTHER
# thorough tier: every ordered pair of (dtype, size) atoms as two initializers of one model (write order is by size,
# offsets depend on the neighbour); destination/verbose/path stay at their defaults for these
PAIRS = [f"pair-{d1}-{s1}-{d2}-{s2}" for d1 in _DT for s1 in _SZ for d2 in _DT for s2 in _SZ]
DESTS = ["fresh", "existing", "nodir"]
PATHKINDS = ["str", "path", "rel", "rel-nested"]


def model_class(mid):
    if mid.startswith("one-") or mid.startswith("pair-"):
        return "plain"
    if mid in ("mix", "deser", "lazy", "big-align", "init-input", "unnamed"):
        return "plain"
    if mid.startswith("ext-other"):
        return "ext-other"
    if mid == "ext-dest-touched":
        return "ext-dest"
    return mid


# ---------------------------------------------------------------------------------------------
# model construction (fresh objects for every run)
# ---------------------------------------------------------------------------------------------

def _np_data(dt, n, seed=0):
    import numpy as np
    base = np.arange(n, dtype=np.int64) + seed
    if dt == "f32":
        return (base.astype(np.float32) * np.float32(0.5) - np.float32(3))
    if dt == "i64":
        return base * 1000003 - 7
    if dt == "f16":
        return (base % 2000).astype(np.float16)
    if dt == "bool":
        return (base % 3 == 0)
    raise KeyError(dt)


_ITEM = {"f32": 4, "i64": 8, "f16": 2, "bool": 1}


def _array(dt, size, seed=0):
    if size == "0":
        return _np_data(dt, 0)
    if size == "scalar":
        return _np_data(dt, 1, seed + 5).reshape(())
    nbytes = {"8B": 8, "1K": 1024, "64K": 65536}[size]
    return _np_data(dt, nbytes // _ITEM[dt], seed)


class Built:
    def __init__(self):
        self.model = None
        self.tracked = []   # (graph label, initializer name, ir.Value, expected bytes | None (uninitialized))
        self.expect_refusal = None


def _layout(root, dest, pathkind):
    """-> (model_path argument, absolute model path, cwd to use or None)"""
    out = os.path.join(root, "out")
    d = os.path.join(out, "nodir") if dest == "nodir" else out
    fname = "m.v1.onnx" if pathkind == "path" else "m.onnx"
    full = os.path.join(d, fname)
    if pathkind == "str":
        return full, full, None
    if pathkind == "path":
        return pathlib.Path(full), full, None
    if pathkind == "rel":
        if dest == "nodir":
            return os.path.join("nodir", fname), full, out
        return fname, full, out
    if pathkind == "rel-nested":
        return os.path.relpath(full, root), full, root
    raise KeyError(pathkind)


def build(mid, root, full_model_path):
    """History models '<base>-after-<op>' are built as their fully initialized base, taken through <op>, then edited."""
    if mid == "resaved-otherdir":
        # history: the API itself exports `mix` into a staging directory under the destination's file name; that export is
        # read back with ir.load (large initializers are now ExternalTensors of staging/<name>.data, the others small)
        # and is the model that gets saved
        from onnxscript import ir
        from onnxscript._framework_apis import torch_2_5 as api
        b0 = _build("mix", root, full_model_path)
        stag = os.path.join(root, "staging")
        os.makedirs(stag, exist_ok=True)
        spath = os.path.join(stag, os.path.basename(full_model_path))
        api.save_model_with_external_data(b0.model, spath)
        raws = {name: raw for (_l, name, _v, raw) in b0.tracked}
        b = Built()
        b.model = ir.load(spath)
        b.tracked = [("main", name, v, raws[name]) for name, v in b.model.graph.initializers.items()]
        return b
    for suffix, op in (("-after-check", "check"), ("-after-save", "save")):
        if mid.endswith(suffix):
            stem = mid[: -len(suffix)]
            base = {"uninit": "mix", "uninit-sub": "subgraph", "mix": "mix"}[stem]
            b = _build(base, root, full_model_path)
            from onnxscript._framework_apis import torch_2_5 as api
            if op == "check":
                api.check_model(b.model)
            else:
                pre = os.path.join(root, "pre_history")
                os.makedirs(pre, exist_ok=True)
                api.save_model_with_external_data(b.model, os.path.join(pre, "first.onnx"))
            if stem.startswith("uninit"):
                # the edit after the history: one initializer loses its value (main graph 'a' / the then-branch's own)
                label, name = ("main", "a") if stem == "uninit" else ("then", "then_w")
                new = []
                for (l2, n2, v, raw) in b.tracked:
                    if (l2, n2) == (label, name):
                        v.const_value = None
                        raw = None
                    new.append((l2, n2, v, raw))
                b.tracked = new
                b.expect_refusal = "uninit"
            return b
    return _build(mid, root, full_model_path)


def _build(mid, root, full_model_path):
    """Creates directories/files under root and returns Built."""
    import numpy as np
    from onnxscript import ir

    b = Built()
    out = os.path.join(root, "out")
    os.makedirs(out, exist_ok=True)
    data_file = full_model_path + ".data"
    ddir = os.path.dirname(full_model_path)

    def val(name, tensor):
        v = ir.Value(name=name, const_value=tensor)
        if tensor is not None:
            v.type = ir.TensorType(tensor.dtype)
            v.shape = ir.Shape(list(tensor.shape))
        return v

    def mem(name, dt, size, seed=0):
        arr = _array(dt, size, seed)
        t = ir.Tensor(arr, name=name)
        return val(name, t), arr.tobytes()

    def ext(name, dt, size, path, offset, seed=0, touched=False):
        """external tensor whose bytes live in `path` at `offset`; the file is (re)written here"""
        arr = _array(dt, size, seed)
        raw = arr.tobytes()
        os.makedirs(os.path.dirname(path), exist_ok=True)
        old = b""
        if os.path.exists(path):
            with open(path, "rb") as f:
                old = f.read()
        buf = bytearray(max(len(old), offset + len(raw) + 16))
        buf[:len(old)] = old
        for i in range(len(old), len(buf)):
            buf[i] = 0xEE
        buf[offset:offset + len(raw)] = raw
        with open(path, "wb") as f:
            f.write(bytes(buf))
        dtype = {"f32": ir.DataType.FLOAT, "i64": ir.DataType.INT64, "f16": ir.DataType.FLOAT16,
                 "bool": ir.DataType.BOOL}[dt]
        t = ir.ExternalTensor(os.path.basename(path), offset, len(raw), dtype, shape=ir.Shape(list(arr.shape)),
                              name=name, base_dir=os.path.dirname(path))
        if touched:
            t.numpy()  # the user looked at the tensor before saving: memory map established
        return val(name, t), raw

    x = ir.Value(name="x", type=ir.TensorType(ir.DataType.FLOAT), shape=ir.Shape([1]))
    n0 = ir.Node("", "Identity", [x], num_outputs=1, name="n0")
    n0.outputs[0].name = "y"
    nodes = [n0]
    inits = []          # (value, expected bytes)
    sub_tracked = []
    graph_inputs = [x]

    if mid.startswith("one-"):
        _, dt, size = mid.split("-")
        inits.append(mem("w", dt, size))
    elif mid.startswith("pair-"):
        _, d1, s1, d2, s2 = mid.split("-")
        inits += [mem("p", d1, s1, 1), mem("q", d2, s2, 2)]
    elif mid in ("mix", "deser"):
        inits += [mem("a", "f32", "1K", 1), mem("b", "i64", "64K", 2), mem("c", "f16", "8B", 3),
                  mem("d", "bool", "0"), mem("e", "f32", "scalar", 4), mem("f", "bool", "1K", 5),
                  mem("g", "f16", "64K", 6), mem("h", "i64", "8B", 7)]
        # a tensor attribute (never externalised) is part of the structure that must survive
        cn = ir.Node("", "Constant", [], attributes=[ir.AttrTensor("value", ir.Tensor(_array("f32", "1K", 9), name="k"))],
                     num_outputs=1, name="const")
        cn.outputs[0].name = "kout"
        nodes.append(cn)
    elif mid == "lazy":
        arr = _array("f32", "1K", 11)
        lz = ir.LazyTensor(lambda arr=arr: ir.Tensor(arr), dtype=ir.DataType.FLOAT, shape=ir.Shape([256]), name="lz")
        inits += [(val("lz", lz), arr.tobytes()), mem("a", "i64", "1K", 1)]
    elif mid == "big-align":
        big = _np_data("f32", (1 << 18) + 2, 3)      # 1 MiB + 8 B: above the alignment threshold
        inits += [mem("a", "f32", "1K", 1), (val("big", ir.Tensor(big, name="big")), big.tobytes()),
                  mem("c", "i64", "8B", 2)]
    elif mid == "unnamed":
        # tensors without a name of their own (what ir.tensor(array) gives): only the ir.Value is named
        a1, a2 = _array("f32", "1K", 21), _array("i64", "8B", 22)
        inits += [(val("w", ir.Tensor(a1)), a1.tobytes()), (val("s", ir.Tensor(a2)), a2.tobytes()),
                  mem("a", "f16", "1K", 1)]
    elif mid == "shared":
        arr = _array("f32", "1K", 2)
        t = ir.Tensor(arr, name="s")
        inits += [(val("s1", t), arr.tobytes()), (val("s2", t), arr.tobytes()), mem("a", "i64", "1K", 1)]
    elif mid.startswith(("subgraph", "uninit-sub")):
        c, craw = mem("cond", "bool", "scalar")
        inits.append((c, craw))
        uninit = mid.startswith("uninit-sub")
        empty = mid.endswith("empty")
        deep = "deep" in mid
        bad_label = "else" if mid in ("uninit-sub-else", "uninit-sub-samename-else") else "then"
        samename = "samename" in mid

        def branch(label, seed, bad):
            wname = "w" if samename else f"{label}_w"
            if bad:
                sv, sraw = ir.Value(name=wname), None
            else:
                sv, sraw = mem(wname, "f32", "1K", seed)
            sub_tracked.append((label, sv.name, sv, sraw))
            if empty:
                # no node at all: the branch returns its own initializer
                return ir.Graph([], [sv], nodes=[], initializers=[sv], name=label)
            sn = ir.Node("", "Identity", [sv], num_outputs=1, name=f"{label}_n")
            sn.outputs[0].name = f"{label}_o"
            return ir.Graph([], sn.outputs, nodes=[sn], initializers=[sv], name=label)

        subs = []
        for label, seed in (("then", 1), ("else", 2)):
            bad = uninit and label == bad_label
            if deep and label == "then":
                inner = [branch("then_then", 5, bad), branch("then_else", 6, False)]
                inn = ir.Node("", "If", [c], attributes=[ir.AttrGraph("then_branch", inner[0]),
                                                         ir.AttrGraph("else_branch", inner[1])], num_outputs=1,
                              name="if_inner")
                inn.outputs[0].name = "then_z"
                subs.append(ir.Graph([], inn.outputs, nodes=[inn], name=label))
            else:
                subs.append(branch(label, seed, bad))
        ifn = ir.Node("", "If", [c], attributes=[ir.AttrGraph("then_branch", subs[0]),
                                                 ir.AttrGraph("else_branch", subs[1])], num_outputs=1, name="if")
        ifn.outputs[0].name = "z"
        nodes.append(ifn)
        inits.append(mem("a", "i64", "1K", 3))
        if uninit:
            b.expect_refusal = "uninit"
    elif mid == "init-input":
        v, raw = mem("p", "f32", "1K", 4)
        graph_inputs.append(v)
        inits += [(v, raw), mem("q", "f32", "8B", 1)]
    elif mid in ("str-small", "str-big"):
        n = 2 if mid == "str-small" else 40
        arr = np.array([b"s%03d" % i * 3 for i in range(n)], dtype=object)
        st = ir.StringTensor(arr, name="s")
        inits += [(val("s", st), b"\0".join(arr.tolist())), mem("a", "f32", "1K", 1)]
    elif mid in ("ext-other", "ext-other-touched"):
        inits += [ext("e", "f32", "1K", os.path.join(out, "old.bin"), 16, 1, touched=mid.endswith("touched")),
                  mem("a", "i64", "1K", 2)]
    elif mid == "ext-otherdir":
        inits += [ext("e", "f16", "64K", os.path.join(root, "other", "old.bin"), 0, 1), mem("a", "i64", "1K", 2)]
    elif mid == "reloaded-samename-otherdir":
        stag = os.path.join(root, "staging", os.path.basename(data_file))
        inits += [ext("e", "f32", "1K", stag, 0, 1), ext("e2", "i64", "1K", stag, 1024, 3), mem("a", "i64", "8B", 2),
                  mem("s", "f32", "scalar", 5)]
    elif mid == "ext-other-small":
        inits += [ext("e", "i64", "8B", os.path.join(out, "old.bin"), 8, 1), mem("a", "i64", "1K", 2)]
    elif mid in ("ext-dest", "ext-dest-touched"):
        os.makedirs(ddir, exist_ok=True)
        inits += [ext("e", "f32", "1K", data_file, 64, 1, touched=mid.endswith("touched")),
                  ext("e2", "i64", "1K", data_file, 4096, 3), mem("a", "i64", "1K", 2)]
    elif mid == "ext-dest-small":
        os.makedirs(ddir, exist_ok=True)
        inits += [ext("e", "f32", "8B", data_file, 32, 1), mem("a", "i64", "1K", 2)]
    elif mid == "uninit":
        inits += [(ir.Value(name="u"), None)]
        b.expect_refusal = "uninit"
    elif mid == "uninit-mix":
        inits += [mem("a", "f32", "1K", 1), (ir.Value(name="u"), None), mem("c", "i64", "64K", 2)]
        b.expect_refusal = "uninit"
    else:
        raise KeyError(mid)

    g = ir.Graph(graph_inputs, [n0.outputs[0]], nodes=nodes, initializers=[v for v, _ in inits],
                 opset_imports={"": 20}, name="main")
    model = ir.Model(g, ir_version=10, producer_name="c20")
    if mid == "deser":
        from onnxscript.ir import serde
        model = serde.deserialize_model(serde.serialize_model(model))
        raws = {v.name: raw for v, raw in inits}
        inits = [(v, raws[name]) for name, v in model.graph.initializers.items()]
    b.model = model
    b.tracked = [("main", v.name, v, raw) for v, raw in inits] + sub_tracked
    return b


def prepare_dest(dest, full_model_path, mid):
    d = os.path.dirname(full_model_path)
    if dest == "nodir":
        return
    os.makedirs(d, exist_ok=True)
    if dest == "existing":
        with open(full_model_path, "wb") as f:
            f.write(b"\xAB" * 5000)
        dp = full_model_path + ".data"
        if not os.path.exists(dp):      # ext-dest models created it already (it IS their data)
            with open(dp, "wb") as f:
                f.write(b"\xCD" * 200000)


# ---------------------------------------------------------------------------------------------
# snapshots / oracle
# ---------------------------------------------------------------------------------------------

def _all_graphs(graph, label="main"):
    from onnxscript import ir
    yield label, graph
    for i, node in enumerate(graph):
        for a in node.attributes.values():
            if isinstance(a, ir.Attr) and not a.is_ref():
                if a.type == ir.AttributeType.GRAPH:
                    yield from _all_graphs(a.value, f"{label}/{i}.{a.name}")
                elif a.type == ir.AttributeType.GRAPHS:
                    for j, sg in enumerate(a.value):
                        yield from _all_graphs(sg, f"{label}/{i}.{a.name}[{j}]")


def snapshot(built):
    """Identity + description of the in-memory model.  Reads no external file."""
    from onnxscript.ir import serde
    ids = []
    for label, g in _all_graphs(built.model.graph):
        ids.append((label, id(g), tuple(id(n) for n in g), tuple(id(v) for v in g.inputs),
                    tuple(id(v) for v in g.outputs),
                    tuple((k, id(v), id(v.const_value), type(v.const_value).__name__)
                          for k, v in g.initializers.items())))
    try:
        proto = serde.serialize_model(built.model).SerializeToString(deterministic=True)
    except Exception as e:  # string/uninitialized oddities: describe by the error
        proto = f"serialize-error:{type(e).__name__}"
    ext = []
    from onnxscript import ir
    for label, name, v, raw in built.tracked:
        t = v.const_value
        if isinstance(t, ir.ExternalTensor):
            ext.append((name, t.location, t.offset, t.length, str(t.base_dir), os.path.abspath(t.path)))
    return {"ids": ids, "proto": proto, "ext": ext,
            "tensors": [(label, name, id(v), id(v.const_value), type(v.const_value).__name__)
                        for label, name, v, raw in built.tracked]}


def _tensor_bytes(t):
    from onnxscript import ir
    if isinstance(t, ir.StringTensor):
        return b"\0".join(t.string_data())
    return bytes(t.tobytes())


def compare_after(built, before):
    """-> list of (kind, detail)"""
    out = []
    after = snapshot(built)
    if after["tensors"] != before["tensors"]:
        for x, y in zip(before["tensors"], after["tensors"]):
            if x != y:
                out.append(("tensor-replaced", f"{x[0]}:{x[1]} was {x[4]}#{x[3]} now {y[4]}#{y[3]}"))
                break
        else:
            out.append(("tensor-replaced", "initializer list changed"))
    if after["ids"] != before["ids"]:
        if not any(k == "tensor-replaced" for k, _ in out):
            out.append(("structure-changed", "graph/node/value identities differ"))
    if after["ext"] != before["ext"]:
        out.append(("external-ref-changed", f"{before['ext']} -> {after['ext']}"))
    if after["proto"] != before["proto"]:
        if not out:
            out.append(("model-proto-changed", "serialized model differs after the call"))
    for label, name, v, raw in built.tracked:
        if raw is None:
            if v.const_value is not None:
                out.append(("tensor-replaced", f"{label}:{name} uninitialized value got a tensor"))
            continue
        t = v.const_value
        if t is None:
            continue
        try:
            got = _tensor_bytes(t)
        except Exception as e:
            out.append(("tensor-data-lost", f"{label}:{name} {type(t).__name__} unreadable: {type(e).__name__}: {str(e)[:160]}"))
            continue
        if got != raw:
            out.append(("tensor-data-lost", f"{label}:{name} {type(t).__name__} bytes changed: {len(got)} bytes read, "
                        f"{len(raw)} expected, first difference at "
                        f"{next((i for i, (p, q) in enumerate(zip(got, raw)) if p != q), min(len(got), len(raw)))}"))
    return out


def _strip_tensor(tp):
    import onnx
    for f in ("raw_data", "float_data", "int32_data", "int64_data", "double_data", "uint64_data", "string_data",
              "external_data"):
        tp.ClearField(f)
    tp.ClearField("data_location")


def _strip_graph(g):
    import onnx
    for tp in g.initializer:
        _strip_tensor(tp)
    for n in g.node:
        for a in n.attribute:
            if a.type == onnx.AttributeProto.GRAPH:
                _strip_graph(a.g)
            elif a.type == onnx.AttributeProto.GRAPHS:
                for sg in a.graphs:
                    _strip_graph(sg)


def _proto_graphs(g, label="main"):
    import onnx
    yield label, g
    for i, n in enumerate(g.node):
        for a in n.attribute:
            if a.type == onnx.AttributeProto.GRAPH:
                yield from _proto_graphs(a.g, f"{label}/{i}.{a.name}")
            elif a.type == onnx.AttributeProto.GRAPHS:
                for j, sg in enumerate(a.graphs):
                    yield from _proto_graphs(sg, f"{label}/{i}.{a.name}[{j}]")


def check_saved(built, before, full_model_path, files_before):
    """Success oracle. -> (list of (kind, detail), info dict with offsets for the budget sweep)"""
    import onnx
    import onnx.numpy_helper
    from onnxscript import ir
    out = []
    info = {"ext_ranges": [], "model_size": None}
    d = os.path.dirname(full_model_path)
    fname = os.path.basename(full_model_path)
    if not os.path.isfile(full_model_path):
        return [("no-model-file", f"{fname} not written")], info
    info["model_size"] = os.path.getsize(full_model_path)
    now = set()
    for dp, dn, fn in os.walk(os.path.dirname(d) if os.path.basename(d) == "nodir" else d):
        for f in fn:
            now.add(os.path.relpath(os.path.join(dp, f), d))
    new = now - files_before
    stray = sorted(new - {fname, fname + ".data"})
    if stray:
        out.append(("data-file-not-sibling", f"unexpected new files {stray}"))
    try:
        p = onnx.load(full_model_path, load_external_data=False)
    except Exception as e:
        return out + [("saved-model-unreadable", f"onnx.load: {type(e).__name__}: {str(e)[:200]}")], info
    n_ext = 0
    for label, g in _proto_graphs(p.graph):
        for tp in g.initializer:
            if tp.data_location == onnx.TensorProto.EXTERNAL:
                n_ext += 1
                kv = {e.key: e.value for e in tp.external_data}
                if kv.get("location") != fname + ".data":
                    out.append(("data-file-not-sibling", f"{label}:{tp.name} location={kv.get('location')!r}, "
                                f"expected {fname + '.data'!r}"))
                info["ext_ranges"].append((int(kv.get("offset", 0) or 0), int(kv.get("length", 0) or 0)))
    if n_ext and not os.path.isfile(os.path.join(d, fname + ".data")):
        out.append(("data-file-not-sibling", f"{fname}.data missing although {n_ext} tensors are external"))
    # structure: the saved proto without tensor payloads equals the in-memory model without tensor payloads
    if isinstance(before["proto"], bytes):
        want = onnx.ModelProto()
        want.ParseFromString(before["proto"])
        _strip_graph(want.graph)
        got = onnx.ModelProto()
        got.CopyFrom(p)
        _strip_graph(got.graph)
        if want.SerializeToString(deterministic=True) != got.SerializeToString(deterministic=True):
            out.append(("roundtrip-structure", "saved graph differs from the in-memory graph (tensor payloads ignored)"))
    # tensor bytes through ir.load (what the statement names) and through onnx's own loader
    expected = {(label, name): raw for label, name, v, raw in built.tracked if raw is not None}
    try:
        loaded = ir.load(full_model_path)
        seen = {}
        for label, g in _all_graphs(loaded.graph):
            # built.tracked labels a subgraph by its graph name ('then', 'else', 'then_then', ...), the main graph 'main';
            # sibling subgraphs may own initializers of the same name, so the key is (graph, name)
            glabel = "main" if label == "main" else (g.name or label)
            for k, v in g.initializers.items():
                if v.const_value is None:
                    out.append(("roundtrip-tensor", f"{label}:{k} has no value after ir.load"))
                    continue
                seen[(glabel, k)] = v.const_value
        by_name = seen
        for (label, name), raw in expected.items():
            t = by_name.get((label, name))
            if t is None:
                out.append(("roundtrip-tensor", f"{label}:{name} missing after ir.load"))
                continue
            try:
                got = _tensor_bytes(t)
            except Exception as e:
                out.append(("roundtrip-tensor", f"{label}:{name} unreadable after ir.load: {type(e).__name__}: {str(e)[:120]}"))
                continue
            if got != raw:
                out.append(("roundtrip-tensor", f"{label}:{name} bytes differ after ir.load ({len(got)} vs {len(raw)})"))
            orig = [v for l2, n2, v, r2 in built.tracked if n2 == name and l2 == label][0].const_value
            if t.dtype != orig.dtype or list(t.shape) != list(orig.shape):
                out.append(("roundtrip-tensor", f"{label}:{name} dtype/shape {t.dtype}{list(t.shape)} vs "
                            f"{orig.dtype}{list(orig.shape)}"))
        extra = set(by_name) - set(expected)
        if extra:
            out.append(("roundtrip-tensor", f"unexpected initializers after load: {sorted(extra)}"))
        for t in by_name.values():
            if isinstance(t, ir.ExternalTensor):
                t.release()
    except Exception as e:
        out.append(("roundtrip-load", f"ir.load: {type(e).__name__}: {str(e)[:200]}"))
    try:
        p2 = onnx.load(full_model_path, load_external_data=True)
        for label, g in _proto_graphs(p2.graph):
            for tp in g.initializer:
                glabel = "main" if label == "main" else (g.name or label)
                raw = [r for (l2, n2), r in expected.items() if n2 == tp.name and l2 == glabel]
                if not raw or tp.data_type == onnx.TensorProto.STRING:
                    continue
                got = onnx.numpy_helper.to_array(tp).tobytes()
                if got != raw[0]:
                    out.append(("roundtrip-tensor", f"{label}:{tp.name} bytes differ via onnx.load"))
    except Exception as e:
        out.append(("roundtrip-load", f"onnx.load with external data: {type(e).__name__}: {str(e)[:200]}"))
    return out, info


# ---------------------------------------------------------------------------------------------
# one run
# ---------------------------------------------------------------------------------------------

def _quiet():
    logging.getLogger("onnx_ir").setLevel(logging.CRITICAL)
    logging.getLogger("onnxscript").setLevel(logging.CRITICAL)
    try:
        import tqdm
        tqdm.tqdm.monitor_interval = 0
    except Exception:
        pass


def _role(rel, fname):
    if rel is None:
        return "?"
    base = os.path.basename(rel)
    if base == fname + ".data":
        return "data"
    if base == fname:
        return "model"
    return "other"


def run_once(cfg, fault):
    """cfg = {model,dest,verbose,path}; fault = ["none"] | ["raise",k] | ["partial",k] | ["budget",b].

    -> dict(viols=[(kind, detail)], outcome, ops=[...], n_calls, outside, info, faulted)"""
    from onnxscript._framework_apis.torch_2_5 import save_model_with_external_data
    from vf.props.c20_faults import FaultLayer, InjectedFault
    _quiet()
    mid = cfg["model"]
    root = tempfile.mkdtemp(prefix="c20_")
    cwd0 = os.getcwd()
    stderr0 = sys.stderr
    res = {"viols": [], "outcome": None, "ops": [], "info": {}, "faulted": None}
    try:
        arg, full, cwd = _layout(root, cfg["dest"], cfg["path"])
        fname = os.path.basename(full)
        built = build(mid, root, full)
        prepare_dest(cfg["dest"], full, mid)
        d = os.path.dirname(full)
        files_before = set()
        walk_root = os.path.dirname(d) if os.path.basename(d) == "nodir" else d
        for dp, dn, fn in os.walk(walk_root):
            for f in fn:
                files_before.add(os.path.relpath(os.path.join(dp, f), d))
        before = snapshot(built)
        if mid == "unnamed":
            # onnx_ir's serializer (used by the snapshot) names an unnamed initializer tensor after its value as a
            # side effect; undo it so that the save really sees tensors without a name of their own
            for _, vname, v, _ in built.tracked:
                if vname in ("w", "s") and v.const_value is not None:
                    v.const_value.name = None
        if cwd:
            os.chdir(cwd)
        kw = {}
        if fault[0] in ("raise", "partial"):
            kw = dict(fault_at=fault[1], mode=fault[0])
        elif fault[0] == "budget":
            kw = dict(fsize_budget=fault[1])
        exc = None
        sys.stderr = io.StringIO()
        try:
            with FaultLayer(root, **kw) as fl:
                try:
                    save_model_with_external_data(built.model, arg, verbose=cfg["verbose"])
                except Exception as e:   # the statement allows failure; what it must not do is disturb the model
                    exc = e
        finally:
            sys.stderr = stderr0
            os.chdir(cwd0)
        res["ops"] = [[op, _role(rel, fname)] for op, rel in fl.faultable_ops()]
        res["n_calls"] = len(fl.calls)
        res["outside"] = fl.outside
        res["faulted"] = None if fl.faulted is None else [fl.faulted[0], _role(fl.faulted[1], fname)]

        # ---- oracle 1: the in-memory model is exactly as before, tensors readable with their original bytes
        res["viols"] += compare_after(built, before)

        # ---- oracle 2: refusal of uninitialized initializers before any file-system call
        if built.expect_refusal == "uninit":
            if not isinstance(exc, ValueError) or isinstance(exc, OSError):
                res["viols"].append(("uninit-not-refused", f"got {type(exc).__name__ if exc else 'no error'}"))
                res["outcome"] = "uninit-not-refused"
            else:
                res["outcome"] = "uninit-refused"
            if res["outcome"] == "uninit-not-refused":
                return res
            if fl.calls or fl.outside:
                res["viols"].append(("uninit-fs-calls", f"{len(fl.calls)} recorded + {fl.outside} outside calls before the refusal: "
                                     f"{[c[:2] for c in fl.calls[:6]]}"))
            now = set()
            for dp, dn, fn in os.walk(walk_root):
                for f in fn:
                    now.add(os.path.relpath(os.path.join(dp, f), d))
            if now != files_before:
                res["viols"].append(("uninit-fs-calls", f"files created: {sorted(now - files_before)}"))
            return res

        # ---- oracle 3: success => round trip; failure without an injected fault => only where the environment refuses
        injected = fl.faulted is not None
        if exc is None:
            v, info = check_saved(built, before, full, files_before)
            res["info"] = info
            under_fault = injected or fault[0] == "budget"
            if under_fault and v:
                # the save reported success although a write failed and what is on disk does not load back
                res["viols"].append(("write-error-swallowed", "; ".join(f"{k}: {d}" for k, d in v[:3])))
                res["outcome"] = "saved-but-broken"
            else:
                res["viols"] += v
                res["outcome"] = "saved" if not under_fault else ("saved-fault-absorbed" if injected else "saved-within-budget")
            # reading back may have memory-mapped files; tensors of the original must still be intact afterwards
        else:
            chain, seen = [], exc
            while seen is not None and len(chain) < 6:
                chain.append(seen)
                seen = seen.__cause__ or seen.__context__
            is_inj = any(isinstance(c, InjectedFault) for c in chain)
            if injected:
                res["outcome"] = "failed-" + ("injected" if is_inj else f"other:{type(exc).__name__}")
            elif fault[0] == "budget" and isinstance(exc, OSError):
                res["outcome"] = "failed-budget"
            elif cfg["dest"] == "nodir" and isinstance(exc, OSError):
                res["outcome"] = "refused-nodir"
            else:
                res["outcome"] = f"save-failed:{type(exc).__name__}"
                res["viols"].append(("save-failed", f"no fault injected, destination usable: {type(exc).__name__}: {str(exc)[:200]}"))
        return res
    finally:
        sys.stderr = stderr0
        try:
            os.chdir(cwd0)
        except Exception:
            pass
        try:
            from onnxscript import ir
            for _, _, v, _ in (built.tracked if "built" in locals() else []):
                if isinstance(v.const_value, ir.ExternalTensor):
                    v.const_value.release()
        except Exception:
            pass
        shutil.rmtree(root, ignore_errors=True)


# ---------------------------------------------------------------------------------------------
# plan: run 0 per configuration gives the fault menu
# ---------------------------------------------------------------------------------------------

_RUN0 = {}


def _cfg_key(cfg):
    return f"{cfg['model']}|{cfg['dest']}|v{int(cfg['verbose'])}|{cfg['path']}"


def _menu(cfg):
    key = _cfg_key(cfg)
    if key in _RUN0:
        return _RUN0[key]
    r = run_once(cfg, ["none"])
    menu = [["none"]]
    for k, (op, role) in enumerate(r["ops"]):
        menu.append(["raise", k, f"{op}@{role}"])
    for k, (op, role) in enumerate(r["ops"]):
        if op == "write":
            menu.append(["partial", k, f"write@{role}"])
    budgets = set()
    info = r.get("info") or {}
    if info.get("model_size") is not None:
        m = info["model_size"]
        budgets.update({0, 1, m // 2, m - 1})
        top = m
        for off, ln in info.get("ext_ranges", []):
            budgets.update({off, off + ln // 2, off + ln - 1})
            top = max(top, off + ln)
        budgets.add(top)    # control: a budget every file fits in must not disturb anything
    for bgt in sorted(x for x in budgets if x >= 0):
        menu.append(["budget", bgt, "cwrite"])
    _RUN0[key] = (menu, len(r["ops"]))
    return _RUN0[key]


_TIER = "quick"


def _driver(ch):
    mid = ch.all("model", MODELS + (PAIRS if _TIER == "thorough" else []))
    if mid.startswith("pair-"):
        dest, verbose, pk = "fresh", False, "str"
    else:
        dest = ch.choose("dest", DESTS)
        verbose = ch.choose("verbose", [False, True])
        pk = ch.choose("path", PATHKINDS)
    if dest == "nodir" and mid.startswith("ext-dest"):
        raise explore.Prune()   # the data file of the tensor cannot live in a missing directory
    cfg = {"model": mid, "dest": dest, "verbose": verbose, "path": pk}
    menu, k = _menu(cfg)
    fault = ch.all("fault", menu)
    cfg["fault"] = fault
    cfg["K"] = k
    return cfg


def plan(tier, seed):
    global _TIER
    _TIER = tier
    _RUN0.clear()
    st = explore.Stats()
    bound = 1 if tier == "quick" else 3
    items = [case for _, case in explore.explore(_driver, bound=bound, stats=st)]
    d = st.as_dict()
    d["exhaustive"] = True
    d["dimensions"] = {k: len(v) for k, v in st.dim_hist.items()}
    kper = {}
    for key, (menu, k) in sorted(_RUN0.items()):
        kper.setdefault(key.split("|")[0], []).append(k)
    d["K_per_model"] = {m: (min(v) if min(v) == max(v) else [min(v), max(v)]) for m, v in kper.items()}
    d["configurations"] = len(_RUN0)
    d["fault_points_total"] = sum(len(menu) - 1 for menu, _ in _RUN0.values())
    return items, d


def worker_init(arg):
    _quiet()


def execute(item):
    cfg = {k: item[k] for k in ("model", "dest", "verbose", "path")}
    fault = item["fault"]
    r = run_once(cfg, fault[:2])
    mcls = model_class(cfg["model"])
    opcls = "none" if fault[0] == "none" else (fault[2] if fault[0] == "raise" else f"{fault[0]}:{fault[2]}")
    counts = {}
    if fault[0] in ("raise", "partial"):
        # the planned fault point must exist and be the same call in this process
        want = fault[2]
        got = None if r["faulted"] is None else f"{r['faulted'][0]}@{r['faulted'][1]}"
        if got != want:
            raise RuntimeError(f"fault point drift: planned {want} at {fault[1]}, hit {got}; ops={r['ops']}")
    viols = []
    if r["viols"]:
        base = None
        if fault[0] != "none":
            base = {k for k, _ in run_once(cfg, ["none"])["viols"]}
            counts["extra_evaluations"] = 1
        for kind, detail in r["viols"]:
            cls = "none" if (base is not None and kind in base) else opcls
            mc = "*" if kind == "write-error-swallowed" else mcls
            viols.append({"key": f"C20|{kind}|{mc}|{cls}",
                          "detail": {"config": _cfg_key(cfg), "fault": fault, "what": detail, "outcome": r["outcome"]}})
    counts["fs_calls_recorded"] = r.get("n_calls", 0)
    return {"status": "viol" if viols else "ok", "outcome": f"{r['outcome']}|{fault[0]}",
            "nkey": f"{_cfg_key(cfg)}|{fault[:2]}", "viols": viols, "counts": counts,
            "show": f"{_cfg_key(cfg)} fault={fault} K={item.get('K')}"}


def summarize(items, results, tier):
    per_model = {}
    for it, r in zip(items, results):
        m = per_model.setdefault(it["model"], {"pairs": 0, "failed": 0, "saved": 0})
        m["pairs"] += 1
        o = str(r.get("outcome", ""))
        if o.startswith("failed") or o.startswith("refused"):
            m["failed"] += 1
        elif o.startswith("saved"):
            m["saved"] += 1
    return {"model_fault_pairs": per_model}
