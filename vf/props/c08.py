"""C08 - torch_lib operator implementations agree with PyTorch eager.

Bounded-exhaustive: per op family a finite argument domain (c08_dom) is enumerated completely through the
choice-tree explorer; every case binds its arguments through the ATen schema the way the exporter does,
traces the registered torchlib function under torch's OpRecorder, checks and runs the graph (ORT, reference
evaluator when ORT has no kernel) and compares with torch eager.  thorough adds end-to-end exports (c08_e2e).
"""
from __future__ import annotations

import os as _os

_os.environ.setdefault("TORCH_CPP_LOG_LEVEL", "ERROR")  # C++ TORCH_WARN lines would pollute the check's output

import collections
import os

from vf import explore
from vf.props import c08_dom as D

ID = "C08"
LEVEL = "model_checking"
RULE = ("complete enumeration (every dimension exhaustive, bound 0) of per-family finite argument domains: "
        "overload x shape {(),(0,),(1,),(2,3),(1,3,0),(2,1,3)} x dtype x operand kind (tensor of every shape / python "
        "scalar of every kind) x alpha x rounding_mode x dim (every axis, negative, lists, None) x keepdim x optional "
        "arguments omitted/given, bound through the ATen schema; pool/conv/reflection+replication pad overloads over "
        "their own grids (input shape batched/unbatched/empty batch x kernel x stride x padding x dilation x ceil_mode x "
        "count_include_pad x divisor_override x groups x bias x transposed x output_padding, list arguments also in "
        "their one-element form; quick = a prefix of every thorough menu); thorough adds every exported module f(x), "
        "g(f(x),y) over an op subset and every exported nn.functional module of the pad/pool/conv grids in c08_e2e_nn "
        "(adaptive_avg_pool, conv_transpose, max/avg_pool2d, conv2d incl. string paddings).  A leaf is one (overload, argument tuple); leaves are batched per overload.  distinct_nontrivial = "
        "distinct (overload, argument-feature tuple) leaves that torch eager accepted and that were traced, checked, run "
        "and compared (torch-refused / undeclared-dtype / no-runtime leaves are counted as skips)")
ASSUMPTIONS = [
    "torch eager (torch 2.14 CPU) is the reference semantics of each ATen overload",
    "onnxruntime 1.30 CPU (optimisations disabled) implements ONNX semantics; onnx.reference only when ORT has no kernel",
    "torch.onnx._internal.exporter._building.OpRecorder is how the exporter invokes torchlib functions",
    "pool/conv/pad families: a value/shape disagreement shown only by onnx.reference (ORT has no kernel for the dtype) is "
    "not attributed to torchlib when the float32 twin of the case traces to the node-for-node identical graph and ORT "
    "agrees with torch on it (counted as skipped); ConvTranspose graphs with output_padding >= stride that ORT and "
    "onnx.reference both refuse although ONNX allows output_padding < dilation are counted as skipped",
    "tensor dtypes are restricted to those the torchlib function declares for the parameter (mixed-dtype operands and "
    "promoting python scalars are rewritten by the exporter's type-promotion pass before torchlib sees them; they are "
    "covered only end to end)",
]

MAX_ITEM = 12000
# pool/conv/pad overloads are kept in one batch each (most of their tuples are refused by torch in microseconds;
# one batch per overload gives one argument class per cause instead of one per dtype)
MAX_ITEM_BY_FAMILY = {"pool": 60000, "conv": 60000, "padnd": 60000}


def plan(tier, seed):
    st = explore.Stats()
    drv = D.driver_for(tier)
    by_op = collections.OrderedDict()
    for _, case in explore.explore(drv, bound=0, stats=st):
        by_op.setdefault((case["fam"], case["op"]), collections.Counter())[case["f"].get("dtype", "")] += 1
    items = []
    # items carry no cases: a worker re-enumerates the overload's cases with the same driver (small replays)
    for (fam, op), per_dtype in by_op.items():
        n = sum(per_dtype.values())
        if n <= MAX_ITEM_BY_FAMILY.get(fam, MAX_ITEM):
            items.append({"kind": "op", "tier": tier, "fam": fam, "op": op, "part": "", "ncases": n})
        else:
            # split by the dtype feature; the split feature then stays exact in finding classes
            for k, m in per_dtype.items():
                items.append({"kind": "op", "tier": tier, "fam": fam, "op": op, "part": k, "ncases": m})
    e_stats = None
    only = [x for x in os.environ.get("C08_FAMILIES", "").split(",") if x]  # debugging aid
    if tier == "thorough" and (not only or "e2e" in only):
        from vf.props import c08_e2e
        e_items, e_stats = c08_e2e.plan()
        for it in e_items:
            it["ncases"] = len(it["cases"]) * 150  # an export costs ~150 traces
        items.extend(e_items)
    if tier == "thorough" and (not only or "e2e-nn" in only):
        from vf.props import c08_e2e_nn
        n_items, n_stats = c08_e2e_nn.plan()
        for it in n_items:
            it["tier"] = tier
            it["ncases"] = it["n"] * 150
        items.extend(n_items)
        if e_stats is None:
            e_stats = {"states": 0, "transitions": 0, "leaves": 0}
        for k in ("states", "transitions", "leaves"):
            e_stats[k] += n_stats[k]
        e_stats["dimensions_nn"] = n_stats["dimensions"]
    # balance: deal big items first so that round-robin shards get similar totals
    items.sort(key=lambda it: -it["ncases"])
    d = st.as_dict()
    d["exhaustive"] = not st.capped
    d["dimensions"] = {k: len(v) for k, v in st.dim_hist.items()}
    d["items"] = len(items)
    d["families"] = sorted({it["fam"] for it in items})
    d["cases"] = sum(it["ncases"] for it in items if it["kind"] == "op")
    if e_stats:
        d["e2e"] = e_stats
        d["cases"] += e_stats["leaves"]
        d["states"] += e_stats["states"]
        d["transitions"] += e_stats["transitions"]
        d["leaves"] += e_stats["leaves"]
    return items, d


def worker_init(arg):
    import logging
    logging.disable(logging.WARNING)  # onnx_ir / torch.onnx chatter must not reach the check's output
    from vf.props import c08_core as K
    K.T()


def item_key(item):
    return f"{item.get('op')}{item.get('part', '')}"


def execute(item):
    if item["kind"] == "e2e":
        from vf.props import c08_e2e
        return c08_e2e.execute(item)
    if item["kind"] == "e2e-nn":
        from vf.props import c08_e2e_nn
        return c08_e2e_nn.execute(item)
    from vf.props import c08_run
    return c08_run.execute_ops(item)


def on_crash(item, res):
    return None


def summarize(items, results, tier):
    oh = collections.Counter()
    fam = collections.Counter()
    eng = collections.Counter()
    ops_reached = set()
    for it, r in zip(items, results):
        for k, v in (r.get("case_outcomes") or {}).items():
            oh[k] += v
            fam[f"{it.get('fam')}:{k.split(':')[0]}"] += v
        for k, v in (r.get("engines") or {}).items():
            eng[k] += v
        if r.get("status") in ("ok", "viol") and it["kind"] == "op":
            ops_reached.add(it["op"])
    return {"distinct_outcomes": len(oh), "outcome_histogram": dict(oh.most_common(60)),
            "per_family": dict(sorted(fam.items())), "engines": dict(eng),
            "overloads_planned": len({it["op"] for it in items if it["kind"] == "op"}),
            "overloads_reaching_oracle": len(ops_reached)}
