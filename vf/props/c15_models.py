"""C15 helper: base models, carriers and exotic initializers.

Everything here is plain onnx protobuf construction (no onnxscript / onnx_ir code), so that the model M a
case denotes is independent of the code under test.

A *base* is a small valid model with a KEEP region (nodes no API has any reason to touch) and a BAIT region
(something for every API to do).  A *carrier* populates one field / one kind of payload that the property says
must survive.  build(base, carriers, init) -> (ModelProto, info) where info names the elements that the
oracle protects.
"""
from __future__ import annotations

import struct

import onnx
from onnx import TensorProto as TP
from onnx import helper as oh

BASES = ["plain", "subgraph", "function", "nobait"]

F = TP.FLOAT

# ------------------------------------------------------------------------------------------------------
# Exotic initializers
# ------------------------------------------------------------------------------------------------------
# dtype -> (bit width, typed field, min opset at which Reshape/Identity accept the type)
DT = {
    "FLOAT": (32, "float_data", 18), "UINT8": (8, "int32_data", 18), "INT8": (8, "int32_data", 18),
    "UINT16": (16, "int32_data", 18), "INT16": (16, "int32_data", 18), "INT32": (32, "int32_data", 18),
    "INT64": (64, "int64_data", 18), "STRING": (0, "string_data", 18), "BOOL": (8, "int32_data", 18),
    "FLOAT16": (16, "int32_data", 18), "DOUBLE": (64, "double_data", 18), "UINT32": (32, "uint64_data", 18),
    "UINT64": (64, "uint64_data", 18), "COMPLEX64": (64, "float_data", 18), "COMPLEX128": (128, "double_data", 18),
    "BFLOAT16": (16, "int32_data", 18), "FLOAT8E4M3FN": (8, "int32_data", 19), "FLOAT8E4M3FNUZ": (8, "int32_data", 19),
    "FLOAT8E5M2": (8, "int32_data", 19), "FLOAT8E5M2FNUZ": (8, "int32_data", 19), "UINT4": (4, "int32_data", 21),
    "INT4": (4, "int32_data", 21), "FLOAT4E2M1": (4, "int32_data", 23), "FLOAT8E8M0": (8, "int32_data", 24),
    "UINT2": (2, "int32_data", 25), "INT2": (2, "int32_data", 25),
}
SIGNED = {"INT8", "INT16", "INT32", "INT64", "INT4", "INT2"}
# float-like bit patterns: nan (with payload bits), negzero, subnormal, max (largest finite, lowest finite)
FL = {
    "FLOAT": dict(nan=[0x7FC12345, 0xFFC00001, 0x7F800001], negzero=[0x80000000, 0], sub=[1, 0x80000001, 0x007FFFFF],
                  max=[0x7F7FFFFF, 0xFF7FFFFF, 0x7F800000]),
    "DOUBLE": dict(nan=[0x7FF8000000012345, 0xFFF8000000000001, 0x7FF0000000000001], negzero=[1 << 63, 0],
                   sub=[1, (1 << 63) | 1, 0x000FFFFFFFFFFFFF], max=[0x7FEFFFFFFFFFFFFF, 0xFFEFFFFFFFFFFFFF, 0x7FF0000000000000]),
    "FLOAT16": dict(nan=[0x7E01, 0xFE55, 0x7C01], negzero=[0x8000, 0], sub=[1, 0x8001, 0x03FF], max=[0x7BFF, 0xFBFF, 0x7C00]),
    "BFLOAT16": dict(nan=[0x7FC1, 0xFFD5, 0x7F81], negzero=[0x8000, 0], sub=[1, 0x8001, 0x007F], max=[0x7F7F, 0xFF7F, 0x7F80]),
    "FLOAT8E4M3FN": dict(nan=[0x7F, 0xFF, 0x38], negzero=[0x80, 0], sub=[1, 0x81, 0x07], max=[0x7E, 0xFE, 0x38]),
    "FLOAT8E4M3FNUZ": dict(nan=[0x80, 0x40, 0x00], sub=[1, 0x81, 0x07], max=[0x7F, 0xFF, 0x40]),
    "FLOAT8E5M2": dict(nan=[0x7D, 0x7E, 0x7F, 0xFE], negzero=[0x80, 0], sub=[1, 0x81, 0x03], max=[0x7B, 0xFB, 0x7C]),
    "FLOAT8E5M2FNUZ": dict(nan=[0x80, 0x40, 0x00], sub=[1, 0x81, 0x03], max=[0x7F, 0xFF, 0x40]),
    "FLOAT8E8M0": dict(nan=[0xFF, 0x7F, 0x00], max=[0xFE, 0x00, 0x7F]),
    "FLOAT4E2M1": dict(negzero=[0x8, 0, 0x2], sub=[0x1, 0x9, 0x0], max=[0x7, 0xF, 0x2]),
}
PAYLOADS = ["nan", "negzero", "sub", "max", "zerosize", "scalar"]
STORAGES = ["raw", "typed"]


def _elems(dtype, payload):
    """-> (dims, list of element bit patterns) or None when the payload does not exist for the type."""
    w = DT[dtype][0]
    if dtype == "STRING":
        vals = {"max": [b"\xff\xfe\x00not-utf8", b"", "héllo ☃".encode("utf-8")], "zerosize": [],
                "scalar": [b"\x00one\x00"]}.get(payload)
        if vals is None:
            return None
        return ([len(vals)] if payload == "max" else ([0, 3] if payload == "zerosize" else [])), vals
    if payload == "zerosize":
        return [0, 3], []
    if dtype in ("COMPLEX64", "COMPLEX128"):
        part = FL["FLOAT" if dtype == "COMPLEX64" else "DOUBLE"]
        if payload == "scalar":
            return [], [part["max"][0], part["negzero"][0]]
        vals = part.get(payload)
        # interleave (re, im): dims [len//2 + ...]; use pairs (v_i, v_{i+1 mod n})
        out = []
        for i, v in enumerate(vals):
            out += [v, vals[(i + 1) % len(vals)]]
        return [len(vals)], out
    if dtype in FL:
        if payload == "scalar":
            return [], [FL[dtype]["max"][0]]
        vals = FL[dtype].get(payload)
        if vals is None:
            return None
        return [len(vals)], list(vals)
    # integers / bool
    if payload in ("nan", "negzero", "sub"):
        return None
    if dtype == "BOOL":
        vals = [1, 0, 1]
    elif dtype in SIGNED:
        vals = [(1 << (w - 1)) - 1, 1 << (w - 1), (1 << w) - 1]  # max, min, -1 (two's complement bits)
    else:
        vals = [(1 << w) - 1, 0, 1]
    if payload == "scalar":
        return [], [vals[0]]
    return [3], vals


def _pack_sub_byte(vals, w):
    per = 8 // w
    out = bytearray()
    for i in range(0, len(vals), per):
        b = 0
        for j, v in enumerate(vals[i:i + per]):
            b |= (v & ((1 << w) - 1)) << (j * w)
        out.append(b)
    return bytes(out)


def _varint(n):
    out = bytearray()
    while True:
        b = n & 0x7F
        n >>= 7
        if n:
            out.append(b | 0x80)
        else:
            out.append(b)
            return bytes(out)


def _signed(v, w):
    return v - (1 << w) if v >> (w - 1) else v


def init_tensor(dtype, payload, storage, name="k"):
    """The carrier initializer, or None when (dtype, payload, storage) does not denote one."""
    got = _elems(dtype, payload)
    if got is None:
        return None
    dims, vals = got
    w, field, _ = DT[dtype]
    t = TP()
    t.name = name
    t.data_type = getattr(TP, dtype)
    t.dims.extend(dims)
    if dtype == "STRING":
        if storage == "raw":
            return None
        t.string_data.extend(vals)
        return t
    if dtype in ("COMPLEX64", "COMPLEX128"):
        w //= 2
    if storage == "raw":
        if w < 8:
            t.raw_data = _pack_sub_byte(vals, w)
        else:
            t.raw_data = b"".join(v.to_bytes(w // 8, "little") for v in vals)
        return t
    # typed fields
    if payload == "zerosize":
        return t  # no data field at all
    if field in ("float_data", "double_data"):
        n = 4 if field == "float_data" else 8
        payload_bytes = b"".join(v.to_bytes(n, "little") for v in vals)
        fieldno = 4 if field == "float_data" else 10
        # packed repeated field appended on the wire so that NaN payload bits are exact
        t.MergeFromString(_varint((fieldno << 3) | 2) + _varint(len(payload_bytes)) + payload_bytes)
        return t
    if field == "int64_data":
        t.int64_data.extend(_signed(v, 64) for v in vals)
        return t
    if field == "uint64_data":
        t.uint64_data.extend(vals)
        return t
    # int32_data
    if w < 8:
        t.int32_data.extend(_pack_sub_byte(vals, w))
    elif dtype in SIGNED:
        t.int32_data.extend(_signed(v, w) for v in vals)
    else:
        t.int32_data.extend(vals)
    return t


def expected_payload(dtype, payload):
    """-> (dims, element bit patterns, element width in bits, packed little-endian bytes) for the oracle."""
    dims, vals = _elems(dtype, payload)
    w = DT[dtype][0]
    if dtype == "STRING":
        return dims, vals, 0, None
    if dtype in ("COMPLEX64", "COMPLEX128"):
        w //= 2
    raw = _pack_sub_byte(vals, w) if w < 8 else b"".join(v.to_bytes(w // 8, "little") for v in vals)
    return dims, vals, w, raw


def all_inits():
    out = []
    for d in DT:
        for p in PAYLOADS:
            for s in STORAGES:
                if init_tensor(d, p, s) is not None:
                    out.append([d, p, s])
    return out


# ------------------------------------------------------------------------------------------------------
# Carriers other than the exotic initializer.  name -> (bases it applies to, function(ctx))
# ------------------------------------------------------------------------------------------------------

def _mp(container, tag):
    e = container.add()
    e.key = "zz_" + tag
    e.value = "vé " + tag
    e = container.add()
    e.key = "a_" + tag  # second entry, inserted out of key order
    e.value = ""


class Ctx:
    def __init__(self, model, base):
        self.m = model
        self.g = model.graph
        self.base = base

    def node(self, out):
        for n in self.g.node:
            if n.output and n.output[0] == out:
                return n
        raise KeyError(out)

    def fn(self, name="Fn"):
        for f in self.m.functions:
            if f.name == name:
                return f
        raise KeyError(name)

    def fnode(self, out, name="Fn"):
        for n in self.fn(name).node:
            if n.output[0] == out:
                return n
        raise KeyError(out)

    def vi(self, name):
        for v in self.g.value_info:
            if v.name == name:
                return v
        v = self.g.value_info.add()
        v.CopyFrom(oh.make_tensor_value_info(name, F, [2, 3]))
        return v

    def sub(self, which="then_branch"):
        n = self.node("io")
        for a in n.attribute:
            if a.name == which:
                return a.g
        raise KeyError(which)


ALLB = ("plain", "subgraph", "function", "nobait")
WITHQ = ("plain", "subgraph", "function")   # bases that contain the custom call node q
CARRIERS = {}


def carrier(name, bases=ALLB):
    def deco(fn):
        CARRIERS[name] = (bases, fn)
        return fn
    return deco


@carrier("ir_version=9")
def _(c): c.m.ir_version = 9
@carrier("ir_version=13")
def _(c): c.m.ir_version = 13
@carrier("producer_name")
def _(c): c.m.producer_name = "c15-producer"
@carrier("producer_version")
def _(c): c.m.producer_version = "1.2.3+c15"
@carrier("domain")
def _(c): c.m.domain = "org.c15.model"
@carrier("model_version")
def _(c): c.m.model_version = (1 << 40) + 7
@carrier("model_version=0")          # explicitly set to the default: may vanish
def _(c): c.m.model_version = 0
@carrier("doc_string.model")
def _(c): c.m.doc_string = "model doc ☃"
@carrier("doc_string.graph")
def _(c): c.g.doc_string = "graph doc"
@carrier("doc_string.node")
def _(c): c.node("t").doc_string = "keep node doc"
@carrier("doc_string.value_info")
def _(c): c.vi("t").doc_string = "value doc"
@carrier("doc_string.input")
def _(c): c.g.input[0].doc_string = "input doc"
@carrier("doc_string.output")
def _(c): c.g.output[0].doc_string = "output doc"
@carrier("doc_string.initializer")
def _(c): c.g.initializer[0].doc_string = "initializer doc"
@carrier("doc_string.attribute", WITHQ)
def _(c): c.node("q").attribute[0].doc_string = "attribute doc"
@carrier("doc_string.function", ("function",))
def _(c): c.fn().doc_string = "function doc"
@carrier("doc_string.function_node", ("function",))
def _(c): c.fnode("fm").doc_string = "function node doc"
@carrier("doc_string.subgraph", ("subgraph",))
def _(c): c.sub().doc_string = "then doc"
@carrier("metadata_props.model")
def _(c): _mp(c.m.metadata_props, "model")
@carrier("metadata_props.graph")
def _(c): _mp(c.g.metadata_props, "graph")
@carrier("metadata_props.node")
def _(c): _mp(c.node("t").metadata_props, "node")
@carrier("metadata_props.value_info")
def _(c): _mp(c.vi("t").metadata_props, "vi")
@carrier("metadata_props.input")
def _(c): _mp(c.g.input[0].metadata_props, "in")
@carrier("metadata_props.output")
def _(c): _mp(c.g.output[0].metadata_props, "out")
@carrier("metadata_props.initializer")
def _(c): _mp(c.g.initializer[0].metadata_props, "init")
@carrier("metadata_props.function", ("function",))
def _(c): _mp(c.fn().metadata_props, "fn")
@carrier("metadata_props.function_node", ("function",))
def _(c): _mp(c.fnode("fm").metadata_props, "fnode")
@carrier("metadata_props.call_node", ("function",))
def _(c): _mp(c.node("fo").metadata_props, "call")
@carrier("metadata_props.subgraph", ("subgraph",))
def _(c): _mp(c.sub().metadata_props, "sub")
@carrier("metadata_props.subgraph_node", ("subgraph",))
def _(c): _mp(c.sub().node[0].metadata_props, "subnode")
@carrier("opset_import.extra")
def _(c): c.m.opset_import.add(domain="extra.unused", version=3)
@carrier("opset_import.ml")
def _(c): c.m.opset_import.add(domain="ai.onnx.ml", version=3)
@carrier("opset_import.function_extra", ("function",))
def _(c): c.fn().opset_import.add(domain="extra.unused", version=2)
@carrier("value_info")
def _(c): c.vi("t")
@carrier("value_info.symbolic")
def _(c):
    v = c.vi("t")
    v.type.tensor_type.shape.dim[0].Clear()
    v.type.tensor_type.shape.dim[0].dim_param = "N"
    v.type.tensor_type.shape.dim[1].Clear()      # dimension with neither value nor param
@carrier("value_info.no_shape")
def _(c): c.vi("t").type.tensor_type.ClearField("shape")
@carrier("value_info.denotation")
def _(c):
    v = c.vi("t")
    v.type.denotation = "TENSOR"
    v.type.tensor_type.shape.dim[0].denotation = "DATA_BATCH"
@carrier("value_info.function", ("function",))
def _(c):
    v = c.fn().value_info.add()
    v.CopyFrom(oh.make_tensor_value_info("fm", F, [2, 3]))
@carrier("value_info.subgraph", ("subgraph",))
def _(c):
    g = c.sub()
    n = oh.make_node("Neg", ["tb0"], ["tb"], name="")
    # then: tb0 = Div(x, w); tb = Neg(tb0) with value_info for the intermediate
    g.node[0].output[0] = "tb0"
    g.node.append(n)
    g.value_info.add().CopyFrom(oh.make_tensor_value_info("tb0", F, [2, 3]))
@carrier("unused_function")
def _(c):
    f = oh.make_function("local.dom", "Unused", ["a"], ["r"], [oh.make_node("Neg", ["a"], ["r"])],
                         [oh.make_opsetid("", c.m.opset_import[0].version)])
    f.doc_string = "unused function doc"
    c.m.functions.append(f)
    if not any(o.domain == "local.dom" for o in c.m.opset_import):
        c.m.opset_import.add(domain="local.dom", version=1)
@carrier("graph_name")
def _(c): c.g.name = "graph name ☃ / with::separators"
@carrier("graph_name.subgraph", ("subgraph",))
def _(c): c.sub().name = "then_graph_renamed"
@carrier("node_names")
def _(c):
    for i, n in enumerate(c.g.node):
        n.name = f"node_{n.output[0]}_{i}"
@carrier("node_names.function", ("function",))
def _(c):
    for i, n in enumerate(c.fn().node):
        n.name = f"fnode_{i}"
@carrier("initializer.also_input")
def _(c):
    c.g.input.add().CopyFrom(oh.make_tensor_value_info("w", F, [2, 3]))
@carrier("initializer.subgraph", ("subgraph",))
def _(c):
    g = c.sub("else_branch")
    g.initializer.append(oh.make_tensor("sw", F, [2, 3], [7.0, 8.0, 9.0, 10.0, 11.0, 12.5]))
    g.node[0].input[1] = "sw"
@carrier("external_data")
def _(c):
    t = c.g.initializer.add()
    t.name = "ext"
    t.data_type = F
    t.dims.extend([2, 3])
    t.data_location = TP.EXTERNAL
    e = t.external_data.add(); e.key = "location"; e.value = "c15_ext.bin"
    _use_tensor(c, "ext", F)
@carrier("external_data.offset_length")
def _(c):
    t = c.g.initializer.add()
    t.name = "ext"
    t.data_type = F
    t.dims.extend([2, 3])
    t.data_location = TP.EXTERNAL
    for k, v in (("location", "c15_ext.bin"), ("offset", "24"), ("length", "24")):
        e = t.external_data.add(); e.key = k; e.value = v
    _use_tensor(c, "ext", F)
@carrier("external_data.checksum")
def _(c):
    t = c.g.initializer.add()
    t.name = "ext"
    t.data_type = F
    t.dims.extend([2, 3])
    t.data_location = TP.EXTERNAL
    for k, v in (("location", "c15_ext.bin"), ("offset", "0"), ("length", "24"),
                 ("checksum", "da39a3ee5e6b4b0d3255bfef95601890afd80709")):
        e = t.external_data.add(); e.key = k; e.value = v
    _use_tensor(c, "ext", F)
@carrier("sparse_initializer")
def _(c):
    s = c.g.sparse_initializer.add()
    s.values.CopyFrom(oh.make_tensor("sp", F, [2], [1.5, -2.5]))
    s.indices.CopyFrom(oh.make_tensor("sp_idx", TP.INT64, [2], [0, 4]))
    s.dims.extend([2, 3])
@carrier("training_info")
def _(c):
    ti = c.m.training_info.add()
    ti.algorithm.name = "alg"
    ti.algorithm.node.append(oh.make_node("Identity", ["w"], ["w_new"]))
    ti.algorithm.output.add().CopyFrom(oh.make_tensor_value_info("w_new", F, [2, 3]))
    b = ti.update_binding.add(); b.key = "w"; b.value = "w_new"
@carrier("quantization_annotation")
def _(c):
    qa = c.g.quantization_annotation.add()
    qa.tensor_name = "t"
    for k, v in (("SCALE_TENSOR", "w"), ("ZERO_POINT_TENSOR", "w")):
        e = qa.quant_parameter_tensor_names.add(); e.key = k; e.value = v
@carrier("quantization_annotation.initializer")
def _(c):
    qa = c.g.quantization_annotation.add()
    qa.tensor_name = "w"
    e = qa.quant_parameter_tensor_names.add(); e.key = "SCALE_TENSOR"; e.value = "w"
@carrier("attribute.tensor_in_node", WITHQ)   # a tensor attribute with typed storage inside a kept node
def _(c):
    a = c.node("q").attribute.add()
    a.name = "payload"
    a.type = onnx.AttributeProto.TENSOR
    a.t.CopyFrom(init_tensor("BFLOAT16", "nan", "typed", name="attr_t"))
@carrier("attribute.kinds", WITHQ)            # one attribute of every scalar/list kind on a kept node
def _(c):
    n = c.node("q")
    n.attribute.append(oh.make_attribute("a_f", float.fromhex("0x1.000002p-126")))
    n.attribute.append(oh.make_attribute("a_fs", [float("inf"), -0.0, 1e-45]))
    n.attribute.append(oh.make_attribute("a_is", [-(1 << 63), (1 << 63) - 1]))
    n.attribute.append(oh.make_attribute("a_ss", ["", "☃"]))
    n.attribute.append(oh.make_attribute("a_e_ints", [], attr_type=onnx.AttributeProto.INTS))
@carrier("attribute.type_proto", WITHQ)
def _(c):
    c.node("q").attribute.append(oh.make_attribute("a_tp", oh.make_tensor_type_proto(TP.BFLOAT16, ["N", 3])))


def _use_tensor(c, name, elem_type):
    """Consume initializer `name` by a node no API can fold or remove: Reshape(name, shp) -> graph output."""
    if not any(i.name == "shp" for i in c.g.input):
        # two unknown output dims: no rule can materialise the shape, nothing can be folded
        c.g.input.add().CopyFrom(oh.make_tensor_value_info("shp", TP.INT64, [2]))
    out = name + "_r"
    c.g.node.append(oh.make_node("Reshape", [name, "shp"], [out]))
    c.g.output.add().CopyFrom(oh.make_tensor_value_info(out, elem_type, [out + "_a", out + "_b"]))


CARRIER_NAMES = list(CARRIERS)


# ------------------------------------------------------------------------------------------------------
# Bases
# ------------------------------------------------------------------------------------------------------

def the_custom_function(opset):
    """Expansion handed to replace_functions for the custom.dom::MyOp call present in every base."""
    return oh.make_function("custom.dom", "MyOp", ["a"], ["r"],
                            [oh.make_node("Sigmoid", ["a"], ["s"]), oh.make_node("Mul", ["a", "s"], ["r"])],
                            [oh.make_opsetid("", opset)], attributes=["mode"])


def build(base, carriers, init):
    """-> (ModelProto, info).  info: opset, target, keep/bait node keys, protected names."""
    opset = 18
    if init is not None:
        opset = max(opset, DT[init[0]][2])
    w = oh.make_tensor("w", F, [2, 3], [0.5, -1.25, 3.0, 4.0, 5.5, -6.0])
    nodes = [
        # KEEP region
        oh.make_node("Mul", ["x", "w"], ["t"]),
        oh.make_node("Sub", ["t", "y"], ["u"]),
    ]
    inputs = [oh.make_tensor_value_info("x", F, [2, 3]), oh.make_tensor_value_info("y", F, [2, 3])]
    functions = []
    if base == "nobait":
        # nothing for any API to do: every transformation is the identity here
        outputs = [oh.make_tensor_value_info("u", F, [2, 3])]
        opsets = [oh.make_opsetid("", opset)]
    else:
        nodes += [
            # BAIT: foldable expression
            oh.make_node("Constant", [], ["c1"], value=oh.make_tensor("c1v", F, [2, 3], [2.0] * 6)),
            oh.make_node("Constant", [], ["c2"], value=oh.make_tensor("c2v", F, [2, 3], [3.0] * 6)),
            oh.make_node("Add", ["c1", "c2"], ["f"]),
            oh.make_node("Pow", ["x", "f"], ["v"]),
            # BAIT: dead node
            oh.make_node("Neg", ["x"], ["d"]),
            # BAIT: default rewrite rules (x+0) and the custom rule Abs(Abs(a)) -> Abs(a)
            oh.make_node("Constant", [], ["z0"], value=oh.make_tensor("z0v", F, [], [0.0])),
            oh.make_node("Add", ["y", "z0"], ["nz"]),
            oh.make_node("Abs", ["nz"], ["o2a"]),
            oh.make_node("Abs", ["o2a"], ["o2"]),
            # call of an op that only replace_functions knows how to expand
            oh.make_node("MyOp", ["x"], ["q"], domain="custom.dom", mode="fast"),
        ]
        outputs = [oh.make_tensor_value_info(n, F, [2, 3]) for n in ("u", "v", "o2", "q")]
        opsets = [oh.make_opsetid("", opset), oh.make_opsetid("custom.dom", 1)]
    if base == "subgraph":
        inputs.append(oh.make_tensor_value_info("c", TP.BOOL, []))
        then_g = oh.make_graph([oh.make_node("Div", ["x", "w"], ["tb"])], "then_graph", [],
                               [oh.make_tensor_value_info("tb", F, [2, 3])])
        else_g = oh.make_graph([oh.make_node("Max", ["x", "w"], ["eb"])], "else_graph", [],
                               [oh.make_tensor_value_info("eb", F, [2, 3])])
        nodes.append(oh.make_node("If", ["c"], ["io"], then_branch=then_g, else_branch=else_g))
        outputs.append(oh.make_tensor_value_info("io", F, [2, 3]))
    if base == "function":
        fnodes = [oh.make_node("Mul", ["a", "b"], ["fm"]), oh.make_node("LeakyRelu", ["fm"], ["r"])]
        ra = fnodes[1].attribute.add()
        ra.name = "alpha"
        ra.type = onnx.AttributeProto.FLOAT
        ra.ref_attr_name = "alpha"
        fn = oh.make_function("local.dom", "Fn", ["a", "b"], ["r"], fnodes, [oh.make_opsetid("", opset)],
                              attribute_protos=[oh.make_attribute("alpha", 0.125)])
        functions.append(fn)
        opsets.append(oh.make_opsetid("local.dom", 1))
        nodes.append(oh.make_node("Fn", ["x", "y"], ["fo"], domain="local.dom"))
        outputs.append(oh.make_tensor_value_info("fo", F, [2, 3]))
    graph = oh.make_graph(nodes, "main_graph", inputs, outputs, initializer=[w])
    m = oh.make_model(graph, opset_imports=opsets, functions=functions, ir_version=10)
    m.ClearField("producer_name")
    m.ClearField("producer_version")
    c = Ctx(m, base)
    if init is not None:
        t = init_tensor(*init)
        m.graph.initializer.append(t)
        _use_tensor(c, "k", t.data_type)
    for name in carriers:
        bases, fn = CARRIERS[name]
        if base not in bases:
            raise ValueError(f"carrier {name} does not apply to base {base}")
        fn(c)
    target = min(opset + 2, 25)
    return m, dict(opset=opset, target=target)
