"""C19 helpers: a small onnx.helper graph builder, deterministic input valuations, comparison with the
C19 tolerances, structural fingerprint of an ir.Model.  Nothing here imports the code under test."""
from __future__ import annotations

import numpy as np
import onnx
from onnx import TensorProto as T
from onnx import helper as h
from onnx import numpy_helper as nh

F32, F16, F64, I64, I32, BOOL = T.FLOAT, T.FLOAT16, T.DOUBLE, T.INT64, T.INT32, T.BOOL
NP = {F32: np.float32, F16: np.float16, F64: np.float64, I64: np.int64, I32: np.int32, BOOL: np.bool_}
DT = {"f32": F32, "f16": F16, "f64": F64, "i64": I64, "i32": I32, "bool": BOOL}
INT64_MAX = 9223372036854775807


class G:
    """Append-only graph builder.  Values are names; constants are Constant nodes (as the exporters emit) or
    initializers (``init=True``)."""

    def __init__(self, opset=18, ms=True, ir_version=10):
        self.nodes = []
        self.inputs = []
        self.outputs = []
        self.inits = []
        self.n = 0
        self.opset = opset
        self.ms = ms
        self.ir_version = ir_version
        self.feeds_spec = []  # (name, onnx dtype, concrete shape, role)
        self.value_info = []

    def fresh(self, stem="v"):
        self.n += 1
        return f"{stem}_{self.n}"

    def inp(self, name, dtype, shape, role="data", decl=None):
        """shape = concrete shape fed at run time; decl = declared shape (symbolic names allowed)."""
        self.inputs.append(h.make_tensor_value_info(name, dtype, list(decl if decl is not None else shape)))
        self.feeds_spec.append((name, dtype, tuple(shape), role))
        return name

    def const(self, value, dtype=None, init=False, name=None):
        arr = np.asarray(value)
        if dtype is not None:
            arr = arr.astype(NP[dtype])
        name = name or self.fresh("c")
        t = nh.from_array(arr, name)
        if init:
            self.inits.append(t)
        else:
            self.nodes.append(h.make_node("Constant", [], [name], value=t))
        return name

    def i64(self, vals, init=False):
        return self.const(np.asarray(vals, dtype=np.int64), init=init)

    def op(self, op_type, *ins, domain="", n_out=1, outs=None, **attrs):
        outs = outs or [self.fresh(op_type.lower()) for _ in range(n_out)]
        attrs = {k: v for k, v in attrs.items() if v is not None}
        self.nodes.append(h.make_node(op_type, [("" if i is None else i) for i in ins], outs, domain=domain, **attrs))
        return outs[0] if len(outs) == 1 else tuple(outs)

    def ms_op(self, op_type, *ins, **kw):
        return self.op(op_type, *ins, domain="com.microsoft", **kw)

    def out(self, name, dtype, shape=None):
        self.outputs.append(h.make_tensor_value_info(name, dtype, shape))

    def vi(self, name, dtype, shape):
        """extra value_info (what the exporter records for values ONNX shape inference cannot derive, e.g. outputs
        of contrib ops); the repo's gqa_test does the same."""
        self.value_info.append(h.make_tensor_value_info(name, dtype, list(shape)))

    def model(self):
        g = h.make_graph(self.nodes, "c19", self.inputs, self.outputs, initializer=self.inits,
                         value_info=self.value_info)
        imports = [h.make_opsetid("", self.opset)]
        if self.ms:
            imports.append(h.make_opsetid("com.microsoft", 1))
        m = h.make_model(g, opset_imports=imports, ir_version=self.ir_version)
        return m


# ---------------------------------------------------------------------------------------------
# deterministic input valuations
# ---------------------------------------------------------------------------------------------

N_VALUATIONS = 4


def _data(k, idx, shape, npdt):
    n = int(np.prod(shape)) if len(shape) else 1
    a = np.arange(n, dtype=np.float64) + 3 * idx
    if k == 3:      # tiny magnitudes (low variance): additive constants such as epsilon dominate the result
        v = (((a * 7) % 11 - 5) * 0.25 + 0.125) * 1e-3
    elif k == 0:    # arange based, small, mixed sign
        v = ((a * 7) % 11 - 5) * 0.25 + 0.125
    elif k == 1:    # negatives
        v = -(((a * 5) % 7) + 1) * 0.375
    else:           # larger magnitudes, mixed sign
        v = ((a * 13) % 23 - 11) * 1.75 + 0.5
    return v.reshape(shape).astype(npdt)


def valuation(spec, k):
    """spec: list of (name, dtype, shape, role) -> feeds dict for valuation k (0..N_VALUATIONS-1)."""
    feeds = {}
    k_data = k
    if k == 3:
        k = 0       # valuation 3 differs from valuation 0 only in the magnitude of the "data" inputs
    for idx, (name, dt, shape, role) in enumerate(spec):
        npdt = NP[dt]
        if isinstance(role, (tuple, list)) and role[0] == "fixed":
            feeds[name] = np.asarray(role[1], dtype=npdt).reshape(shape)
        elif role == "data":
            feeds[name] = _data(k_data, idx, shape, npdt)
        elif role == "scale":   # gamma-like: around 1, both signs in valuation 2
            feeds[name] = (1.0 + _data(k, idx, shape, np.float64) * (0.05 if k < 2 else 0.2)).astype(npdt)
        elif role == "small":   # weights: keep magnitudes small so products stay well-conditioned
            feeds[name] = (_data(0, idx + k, shape, np.float64) * 0.2).astype(npdt)
        elif role == "pos":     # position ids: [.., S] -> 0..S-1 (+k offset on valuation 1 is not allowed
            s = shape[-1] if len(shape) else 1     # by GQA semantics without past; keep plain arange)
            feeds[name] = np.broadcast_to(np.arange(s, dtype=np.int64) + k, shape).astype(npdt).copy()
        elif role == "ones":
            feeds[name] = np.ones(shape, dtype=npdt)
        elif role == "mask":    # additive float mask: 0 / large negative, never a fully masked row
            n = int(np.prod(shape)) if len(shape) else 1
            a = np.arange(n) + k
            m = np.where(a % 3 == 1, -1e4 if npdt == np.float16 else -1e9, 0.0).reshape(shape)
            if len(shape):
                m[..., 0] = 0.0
            feeds[name] = m.astype(npdt)
        elif role == "maskrow":  # as mask, but valuation 2 masks one row completely (-inf)
            n = int(np.prod(shape)) if len(shape) else 1
            a = np.arange(n) + k
            m = np.where(a % 3 == 1, -np.inf, 0.0).reshape(shape)
            if len(shape):
                m[..., 0] = 0.0
            if k == 2 and len(shape) >= 2:
                m[..., 0, :] = -np.inf
            feeds[name] = m.astype(npdt)
        elif role == "bool":
            n = int(np.prod(shape)) if len(shape) else 1
            m = ((np.arange(n) + k) % 3 != 1).reshape(shape)
            if len(shape):
                m[..., 0] = True
            feeds[name] = m
        else:
            raise ValueError(role)
    return feeds


# ---------------------------------------------------------------------------------------------
# comparison with the C19 tolerances
# ---------------------------------------------------------------------------------------------

TOL = {np.dtype("float32"): (1e-4, 1e-5), np.dtype("float16"): (5e-3, 5e-3), np.dtype("float64"): (1e-9, 1e-12)}


def finite(outs):
    for o in outs:
        a = np.asarray(o)
        if a.dtype.kind == "f" and not np.isfinite(a.astype(np.float64)).all():
            return False
    return True


def compare(outs_a, outs_b):
    """None when equal under the C19 tolerances, else a short description (a = fused, b = original)."""
    if len(outs_a) != len(outs_b):
        return f"output count {len(outs_a)} vs {len(outs_b)}"
    for i, (a, b) in enumerate(zip(outs_a, outs_b)):
        a = np.asarray(a)
        b = np.asarray(b)
        if a.dtype != b.dtype:
            return f"output {i}: dtype {a.dtype} vs {b.dtype}"
        if a.shape != b.shape:
            return f"output {i}: shape {a.shape} vs {b.shape}"
        if a.size == 0:
            continue
        if a.dtype.kind == "f":
            rtol, atol = TOL.get(a.dtype, (1e-4, 1e-5))
            af, bf = a.astype(np.float64), b.astype(np.float64)
            if (np.isnan(af) != np.isnan(bf)).any():
                return f"output {i}: NaN mask differs ({int(np.isnan(af).sum())} vs {int(np.isnan(bf).sum())})"
            fin = np.isfinite(af) & np.isfinite(bf)
            if (np.isinf(af) != np.isinf(bf)).any() or (af[np.isinf(af)] != bf[np.isinf(bf)]).any():
                return f"output {i}: infinities differ"
            x, y = af[fin], bf[fin]
            bad = np.abs(x - y) > atol + rtol * np.abs(y)
            if bad.any():
                k = int(np.argmax(np.abs(x - y) - rtol * np.abs(y)))
                return f"output {i}: values differ {x[k]!r} vs {y[k]!r} ({int(bad.sum())}/{x.size} elements)"
        elif not (a == b).all():
            return f"output {i}: integer/bool values differ"
    return None


# ---------------------------------------------------------------------------------------------
# structural fingerprint (independent of onnxscript: works on the serialized ModelProto)
# ---------------------------------------------------------------------------------------------

def _attr_fp(a):
    if a.type == onnx.AttributeProto.GRAPH:
        return (a.name, "g", _graph_fp(a.g))
    if a.type == onnx.AttributeProto.GRAPHS:
        return (a.name, "gs", tuple(_graph_fp(g) for g in a.graphs))
    if a.type == onnx.AttributeProto.TENSOR:
        return (a.name, "t", a.t.data_type, tuple(a.t.dims), nh.to_array(a.t).tobytes())
    b = onnx.AttributeProto()
    b.CopyFrom(a)
    b.doc_string = ""
    return (a.name, b.SerializeToString(deterministic=True))


def _graph_fp(g):
    nodes = tuple((n.op_type, n.domain, tuple(n.input), tuple(n.output), n.overload,
                   tuple(sorted(_attr_fp(a) for a in n.attribute))) for n in g.node)
    inits = tuple(sorted((t.name, t.data_type, tuple(t.dims), nh.to_array(t).tobytes()) for t in g.initializer))
    ins = tuple((i.name, i.type.SerializeToString(deterministic=True)) for i in g.input)
    outs = tuple((o.name, o.type.tensor_type.elem_type) for o in g.output)
    return (nodes, inits, ins, outs)


def fingerprint(model):
    """Everything that determines what the model computes and how it is laid out (node list in order with names
    of values, attributes, initializers, interface, functions, opset imports); value_info / doc strings /
    metadata are annotations and excluded."""
    funcs = tuple(sorted((f.domain, f.name, f.overload, tuple(f.input), tuple(f.output),
                          tuple((n.op_type, n.domain, tuple(n.input), tuple(n.output),
                                 tuple(sorted(_attr_fp(a) for a in n.attribute))) for n in f.node))
                         for f in model.functions))
    imports = tuple(sorted((o.domain, o.version) for o in model.opset_import))
    return (_graph_fp(model.graph), funcs, imports)


def diff_fingerprint(a, b):
    (ga, fa, ia), (gb, fb, ib) = a, b
    if ia != ib:
        return f"opset imports {ia} -> {ib}"
    if fa != fb:
        return f"functions {[f[:2] for f in fa]} -> {[f[:2] for f in fb]}"
    na, nb = ga[0], gb[0]
    if na != nb:
        if len(na) != len(nb):
            return f"node count {len(na)} -> {len(nb)}: {[n[0] for n in na]} -> {[n[0] for n in nb]}"
        for i, (x, y) in enumerate(zip(na, nb)):
            if x != y:
                return f"node #{i} {x[0]}{list(x[2])}->{list(x[3])} became {y[0]}{list(y[2])}->{list(y[3])}"
    if ga[1] != gb[1]:
        return f"initializers {[t[0] for t in ga[1]]} -> {[t[0] for t in gb[1]]}"
    if ga[2] != gb[2]:
        return "graph inputs changed"
    if ga[3] != gb[3]:
        return "graph outputs changed"
    return None


def render(model, limit=1500):
    try:
        return onnx.printer.to_text(model)[:limit]
    except Exception:  # noqa: BLE001
        return str([n.op_type for n in model.graph.node])[:limit]
