"""C08 argument domains, part 2: view/shape ops, indexing/scatter/gather, creation, clamp, matmul family,
normalisations, pad.  Same conventions as c08_dom: the driver walks the ATen schema; each argument gets a finite
menu chosen by its schema type and name; torch decides which tuples are in the operator's domain (a tuple torch
refuses is counted as skipped)."""
from __future__ import annotations

import itertools

from vf import explore
from vf.props.c08_dom import FLOATS, L, OMIT, S, T, axes, dim_lists, fs, note_dim, schema

INT64_MAX = 9223372036854775807


def _numel(sh):
    n = 1
    for d in sh:
        n *= d
    return n


def _lst(v):
    return str(list(v)).replace(" ", "")


def _opt_pick(c, label, has_def, values, none=False):
    """menu: omitted (when the schema has a default) / None (when optional) / each value"""
    menu = [("omit", OMIT)] if has_def else []
    if none:
        menu.append(("None", None))
    for v in values:
        menu.append((_lst(v) if isinstance(v, (list, tuple)) else repr(v) if isinstance(v, float) else str(v), v))
    return c.pick(label, menu)


def _put(c, name, v):
    if v is OMIT:
        return
    if v is None:
        c.g[name] = ["N"]
    elif isinstance(v, (list, tuple)):
        c.g[name] = L(v)
    elif isinstance(v, str):
        c.g[name] = ["STR", v]
    else:
        c.g[name] = S(v)


# ------------------------------------------------------------------------------------------------
# family 4: view / shape ops
# ------------------------------------------------------------------------------------------------

VIEW = ["view", "_unsafe_view", "view_copy", "reshape", "expand", "broadcast_to", "expand_as", "view_as", "permute",
        "squeeze", "squeeze.dim", "unsqueeze", "flatten.using_ints", "transpose.int", "t", "mT", "mH", "atleast_1d",
        "atleast_2d", "atleast_3d", "unflatten.int", "diagonal", "diagonal_copy", "unfold"]
VIEW_PRIMS = ["reshape", "transpose", "squeeze", "broadcast_in_dim"]

_VIEW_SIZES = [[], [-1], [1], [6], [2, 3], [3, 2], [3, -1], [-1, 2], [1, 6, 1], [2, -1, 1], [0], [3, 0], [1, 3, 0],
               [0, 3], [-1, 3, 0], [1, 1], [2, 1, 3], [1, -1]]
_EXPAND_SIZES = [[], [1], [3], [2, 3], [-1, -1], [2, -1], [-1, 3], [4, 2, 3], [2, 2, 3], [1, 3, 0], [2, 1, 3],
                 [2, 4, 3], [2, -1, 3], [-1, -1, -1], [0], [3, 0], [2, 0], [5, 1, 3, 0]]
_OTHER_SHAPES = [(2, 3), (), (0,), (1,), (1, 3, 0), (2, 1, 3), (2, 2, 3), (4, 2, 3), (3, 2), (6,)]
_UNFLATTEN = [[-1], [1, -1], [3, 1], [1, 3], [3, -1], [-1, 3], [2, -1], [0, -1], [1, 1], [2, 1], [1, 2]]


def fam_view(c):
    sch = schema(c.op)
    base = c.op.split("::")[1].split(".")[0]
    sh = None
    for (name, ty, kwo, has_def) in sch:
        if ty == "Tensor" and sh is None:
            sh = c.shape()
            dt = c.dtype()
            c.g[name] = T(sh, dt, "a")
        elif ty == "Tensor":  # expand_as / view_as
            o = c.pick(name, [(fs(s), s) for s in _OTHER_SHAPES])
            c.g[name] = T(o, dt, "b")
        elif name in ("size", "shape") and base in ("expand", "broadcast_to", "broadcast_in_dim"):
            _put(c, name, c.pick("size", [(_lst(v), v) for v in _EXPAND_SIZES]))
        elif name in ("size", "shape"):
            _put(c, name, c.pick("size", [(_lst(v), v) for v in _VIEW_SIZES]))
        elif name == "implicit":
            pass
        elif name in ("dims", "permutation"):
            r = len(sh)
            perms = [list(p) for p in itertools.permutations(range(r))]
            menu = [(_lst(p), p) for p in perms]
            menu += [(_lst([x - r for x in p]), [x - r for x in p]) for p in perms if r > 0]
            if r >= 2:
                menu.append((_lst([0] * r), [0] * r))       # repeated axis: torch refuses
                menu.append((_lst(list(range(r - 1))), list(range(r - 1))))  # wrong length
            _put(c, name, c.pick(name, menu))
        elif name == "dimensions":  # prims::squeeze
            _put(c, name, c.pick(name, [(_lst(v), v) for v in dim_lists(len(sh))]))
        elif name == "broadcast_dimensions":
            r = len(sh)
            menu = [(_lst(v), list(v)) for k in (r,) for v in itertools.combinations(range(4), k)]
            _put(c, name, c.pick(name, menu))
        elif name == "dim" and base == "unsqueeze":
            r = len(sh)
            _put(c, name, c.pick(name, [(str(d), d) for d in range(-(r + 1), r + 1)]))
        elif name in ("dim", "dimension", "start_dim", "end_dim", "dim0", "dim1", "dim2"):
            v = _opt_pick(c, name, has_def, axes(len(sh)))
            if name in ("dim", "dimension"):
                note_dim(c, sh, v)
            _put(c, name, v)
        elif name == "sizes":
            _put(c, name, c.pick(name, [(_lst(v), v) for v in _UNFLATTEN]))
        elif name == "offset":
            _put(c, name, _opt_pick(c, name, has_def, [0, 1, -1, 2, -3]))
        elif name == "size" and base == "unfold":
            _put(c, name, c.pick(name, [(str(v), v) for v in (1, 2, 3, 0)]))
        elif name == "step":
            _put(c, name, c.pick(name, [(str(v), v) for v in (1, 2, 3)]))
        elif not has_def:
            raise AssertionError(f"{c.op}: no menu for required argument {name}: {ty}")
    return c.case()


def _fix_unfold(c):
    return c


# ------------------------------------------------------------------------------------------------
# family 5: cat/stack/split/chunk/slice/select/narrow/index_select/gather/scatter/where/masked_fill/
#           tril/triu/cumsum(in reduce)/flip/roll/repeat/tile/index/index_put/embedding/sort/topk
# ------------------------------------------------------------------------------------------------

INDEX = ["cat", "concat", "concatenate", "stack", "split.Tensor", "split", "split_with_sizes", "unsafe_split.Tensor",
         "chunk", "unbind.int", "slice.Tensor", "select.int", "narrow", "index_select", "gather", "scatter.src",
         "scatter.value", "scatter_add", "scatter_reduce.two", "where.self", "where.ScalarOther", "where.ScalarSelf",
         "where.Scalar", "masked_fill.Scalar", "masked_fill.Tensor", "tril", "triu", "flip", "roll", "repeat", "tile",
         "index.Tensor", "_unsafe_index.Tensor", "index_put", "_unsafe_index_put", "embedding", "sort", "topk",
         "slice_scatter", "select_scatter", "nonzero", "masked_scatter", "repeat_interleave.self_int",
         "constant_pad_nd", "pad"]
INDEX_PRIMS = ["where"]

_SCATTER_SRC = [(2, 3), (1, 3), (2, 1), (2, 2), (3,), (2,), (1,), (0,), (), (1, 3, 0), (2, 1, 3), (1, 1, 3), (2, 1, 1),
                (0, 3), (2, 0), (1, 3, 0)[1:], (1, 0)]
_LIGHT_DT = ["f32", "i64", "bool", "f16", "u8"]


def _index_values(n, kind):
    """index value lists for an axis of size n"""
    if kind == "first":
        return [0] if n > 0 else []
    if kind == "rev":
        return list(range(n - 1, -1, -1))
    if kind == "dup":
        return [0, 0, n - 1] if n > 0 else []
    if kind == "neg":
        return [-1, 0] if n > 0 else []
    if kind == "empty":
        return []
    raise ValueError(kind)


def fam_index(c):
    sch = schema(c.op)
    base = c.op.split("::")[1].split(".")[0]
    names = [s[0] for s in sch]
    sh = dt = None
    dim = None
    idx_shape = None

    def need_dim(label="dim", has_def=False, extra=()):
        nonlocal dim
        if dim is None:
            vals = list(extra) + axes(len(sh))
            dim = _opt_pick(c, label, has_def, vals)
            note_dim(c, sh, dim)
        return dim

    for (name, ty, kwo, has_def) in sch:
        if ty == "Tensor" and sh is None and name not in ("condition", "pred"):
            shapes = None
            if base in ("tril", "triu"):
                shapes = [s for s in c.cfg["shapes"] if len(s) >= 2] + [(3, 3), (2, 3, 2)]
            if base == "embedding":
                shapes = [(4, 3), (1, 2), (0, 3)]
            sh = c.shape(shapes=shapes)
            dt = c.dtype()
            pat = "w" if base in ("sort", "topk") else "a"
            c.g[name] = T(sh, dt, pat)
        elif ty == "Tensor" and name in ("condition", "pred"):
            csh = c.shape("cond_shape")
            c.g[name] = T(csh, "bool", "a")
            c.meta["cond"] = csh
        elif ty == "Tensor" and name == "mask":
            msh = c.shape("mask_shape")
            c.g[name] = T(msh, "bool", "b")
        elif ty == "Tensor" and name in ("self", "other", "a", "b") and base == "where":
            # where.*: first data operand fixes the dtype
            if dt is None:
                sh = c.shape()
                dt = c.dtype()
                c.g[name] = T(sh, dt, "a")
            else:
                o = c.shape("other_shape")
                c.g[name] = T(o, dt, "b")
        elif ty == "Tensor" and name == "value":  # masked_fill.Tensor: 0-d value
            c.g[name] = T((), dt, "b")
        elif ty == "Tensor" and name == "indices" and base == "embedding":
            kind = c.pick("indices", [("1d", ((2,), [1, 0])), ("2d", ((2, 2), [0, 1, 1, 0])), ("0d", ((), [0])),
                                      ("empty", ((0,), [])), ("neg", ((1,), [-1]))])
            ish, vals = kind
            n0 = sh[0]
            vals = [v % n0 if (n0 and v >= 0) else v for v in vals]
            c.g[name] = ["I", list(ish), c.pick("index_dtype", [("i64", "i64"), ("i32", "i32")]), vals]
        elif ty == "Tensor" and name == "index":
            d = need_dim()
            r = len(sh)
            if d is OMIT or d is None or not (-max(r, 1) <= d < max(r, 1)):
                raise AssertionError("dim must precede index")
            n = sh[d] if r > 0 else 1
            if base == "index_select":
                kind = c.pick("index", [(k, k) for k in ("first", "rev", "dup", "neg", "empty", "0d")])
                if kind == "0d":
                    vals, ish = [0], []
                else:
                    vals = _index_values(n, kind)
                    ish = [len(vals)]
            else:  # gather / scatter*: index has the rank of self
                kind = c.pick("index", [(k, k) for k in ("same", "first", "neg", "empty", "smaller")])
                if r == 0:
                    ish = []
                    vals = [0] if kind != "neg" else [-1]
                    if kind in ("empty", "smaller"):
                        ish, vals = [0], []
                else:
                    ish = list(sh)
                    if kind == "first":
                        ish[d] = 1 if n > 0 else 0
                    elif kind == "empty":
                        ish[d] = 0
                    elif kind == "smaller":
                        ish = [max(x - 1, 0) for x in ish]
                    cnt = _numel(ish)
                    if kind == "neg":
                        vals = [-1] * cnt
                    elif base.startswith("scatter") and kind == "same" and n > 0:
                        # a permutation along dim: scatter results with duplicate indices are unspecified
                        strides = []
                        acc = 1
                        for x in reversed(ish):
                            strides.insert(0, acc)
                            acc *= x
                        dd = d % r
                        vals = [(n - 1 - ((i // strides[dd]) % ish[dd])) for i in range(cnt)]
                    else:
                        vals = [(i % n) if n > 0 else 0 for i in range(cnt)]
            idx_shape = ish
            idt = c.pick("index_dtype", [("i64", "i64"), ("i32", "i32")]) if base in ("index_select", "gather") else "i64"
            c.g[name] = ["I", list(ish), idt, vals]
        elif ty == "Tensor" and name in ("src", "source"):
            if base in ("slice_scatter", "select_scatter"):
                o = c.shape("src_shape", shapes=_SCATTER_SRC)
                c.g[name] = T(o, dt, "b")
            elif base == "masked_scatter":
                c.g[name] = T((7,), dt, "b")
            else:
                c.meta["src_name"] = name  # filled once the index shape is known
                c.g[name] = None
        elif ty == "Tensor" and name == "values":  # index_put
            v = c.pick("values", [("0d", ()), ("1", (1,)), ("row", (3,))])
            c.g[name] = T(v, dt, "b")
        elif ty == "List[Tensor]":
            if sh is None:
                sh = c.shape()
                dt = c.dtype()
            r = len(sh)
            need_dim(has_def=("dim" in names and sch[names.index("dim")][3]),
                     extra=([r, -(r + 1)] if base == "stack" and r > 0 else ()))
            cfgs = ["1", "2same", "3same"] + [f"2grow{k}" for k in range(len(sh))] + ["with-empty-1d"]
            k = c.pick("tensors", [(x, x) for x in cfgs])
            if k == "1":
                lst = [sh]
            elif k == "2same":
                lst = [sh, sh]
            elif k == "3same":
                lst = [sh, sh, sh]
            elif k == "with-empty-1d":
                lst = [sh, (0,)]
            else:
                ax = int(k[5:])
                s2 = list(sh)
                s2[ax] = s2[ax] * 2 + 1
                lst = [sh, tuple(s2)]
            c.g[name] = ["TL", [T(s, dt, "a" if i == 0 else "b") for i, s in enumerate(lst)]]
        elif ty == "List[Optional[Tensor]]":
            r = len(sh)
            menu = [("i0", [("I", [2], [0, -1])]), ("i0-empty", [("I", [0], [])]), ("i0-0d", [("I", [], [0])]),
                    ("i0-2d", [("I", [2, 1], [0, 0])]), ("none,i1", [None, ("I", [2], [1, 0])]),
                    ("i0,i1", [("I", [2], [0, -1]), ("I", [2], [1, 0])]),
                    ("i0,i1-bcast", [("I", [2, 1], [0, -1]), ("I", [3], [0, 1, -1])]),
                    ("i0,none,i2", [("I", [2], [0, -1]), None, ("I", [1], [2])]), ("mask", [("M",)])]
            k = c.pick("indices", menu)
            specs = []
            for e in k:
                if e is None:
                    specs.append(["N"])
                elif e[0] == "M":
                    specs.append(T(sh, "bool", "a"))
                else:
                    specs.append(["I", e[1], "i64", e[2]])
            c.g[name] = ["TL", specs]
        elif name == "dim":
            if dim is None:
                extra = [len(sh)] if base == "stack" else []
                need_dim(has_def=has_def, extra=extra)
            _put(c, name, dim)
        elif name in ("split_size", "chunks", "k", "repeats") and ty in ("int", "SymInt"):
            _put(c, name, c.pick(name, [(str(v), v) for v in (1, 2, 3, 5, 0)]))
        elif name == "split_sizes":
            d = need_dim(has_def=True)
            dd = 0 if d is OMIT else d
            r = len(sh)
            n = sh[dd] if r and -r <= dd < r else 0
            menu = [[n], [1, n - 1], [0, n], [1] * n, [n, 0], [2, n - 2]]
            seen, m2 = set(), []
            for v in menu:
                if min(v, default=0) >= 0 and _lst(v) not in seen:
                    seen.add(_lst(v))
                    m2.append(v)
            _put(c, name, c.pick(name, [(_lst(v), v) for v in m2]))
        elif name in ("start", "end") and base in ("slice", "slice_scatter"):
            if base == "slice_scatter":
                vals = [1, -1] if name == "start" else [2, -1, INT64_MAX]
            else:
                vals = [1, -1, 5, -5, 0] + ([INT64_MAX] if name == "end" else [])
            _put(c, name, _opt_pick(c, name, has_def, vals, none=True))
        elif name == "step":
            _put(c, name, _opt_pick(c, name, has_def, [2] if base == "slice_scatter" else [1, 2, 3]))
        elif name == "index" and ty in ("int", "SymInt"):
            _put(c, name, c.pick(name, [(str(v), v) for v in (0, 1, -1, 2, -3)]))
        elif name in ("start", "length"):
            _put(c, name, c.pick(name, [(str(v), v) for v in ((0, 1, -1, 2) if name == "start" else (0, 1, 2, 3))]))
        elif name == "diagonal":
            _put(c, name, _opt_pick(c, name, has_def, [0, 1, -1, 5, -5]))
        elif name == "dims" and base == "flip":
            _put(c, name, c.pick(name, [(_lst(v), v) for v in dim_lists(len(sh))]))
        elif name == "shifts":
            _put(c, name, c.pick(name, [(_lst(v), v) for v in ([1], [-1], [0], [4], [1, 2], [-2, 1])]))
        elif name == "dims" and base == "roll":
            _put(c, name, _opt_pick(c, name, has_def, [[], [0], [-1], [0, 1], [1, 0], [-1, -2]]))
        elif name in ("repeats", "dims") and base in ("repeat", "tile"):
            _put(c, name, c.pick(name, [(_lst(v), v) for v in ([], [1], [2], [0], [1, 2], [2, 1, 2], [1, 1, 1, 2], [3, 1])]))
        elif name in ("self", "other", "value") and ty == "number":
            _put(c, name, c.pick(name, ([("omit", OMIT)] if has_def else []) + [
                ("int:2", 2), ("int:-3", -3), ("float:2.5", 2.5), ("bool:True", True), ("int:0", 0)]))
        elif name == "reduce":
            _put(c, name, c.pick(name, [(v, v) for v in ("sum", "prod", "mean", "amax", "amin")]))
        elif name == "include_self":
            _put(c, name, _opt_pick(c, name, has_def, [False]))
        elif name == "accumulate":
            _put(c, name, _opt_pick(c, name, has_def, [True, False]))
        elif name in ("descending", "largest"):
            _put(c, name, _opt_pick(c, name, has_def, [True, False]))
        elif name == "sorted":
            pass
        elif name == "padding_idx":
            _put(c, name, _opt_pick(c, name, has_def, [-1, 0, 1]))
        elif name in ("scale_grad_by_freq", "sparse", "sparse_grad", "output_size"):
            pass
        elif name == "pad":
            r = len(sh)
            menu = [[], [1, 1], [0, 2], [2, 0], [1, 0, 0, 1], [-1, 1], [1, -1, 0, 2], [0, 0, 1, 1, 2, 0]]
            _put(c, name, c.pick(name, [(_lst(v), v) for v in menu]))
        elif name == "mode":
            _put(c, name, _opt_pick(c, name, has_def, ["constant", "reflect", "replicate", "circular"]))
        elif name == "value" and ty in ("Optional[float]", "float"):
            _put(c, name, _opt_pick(c, name, has_def, [0.0, 1.5, -2.0], none=ty.startswith("Optional")))
        elif not has_def:
            raise AssertionError(f"{c.op}: no menu for required argument {name}: {ty}")
    if c.meta.get("src_name"):
        nm = c.meta["src_name"]
        if idx_shape is None:
            raise AssertionError("src without index")
        which = c.pick("src_shape", [("as-index", "same"), ("larger", "larger")])
        s2 = list(idx_shape) if which == "same" else [x + 1 for x in idx_shape]
        c.g[nm] = T(s2, dt, "b")
    # keep g in schema order (src placeholder was inserted early)
    c.g = {k: v for k, v in c.g.items() if v is not None}
    return c.case()


# ------------------------------------------------------------------------------------------------
# family 6: creation / conversion
# ------------------------------------------------------------------------------------------------

CREATE = ["zeros", "ones", "full", "zeros_like", "ones_like", "full_like", "new_zeros", "new_ones", "new_full",
          "arange", "arange.start", "arange.start_step", "linspace", "scalar_tensor", "_to_copy", "type_as",
          "fill.Scalar", "fill.Tensor", "hann_window", "hamming_window", "blackman_window", "copy"]
CREATE_PRIMS = ["convert_element_type"]

_SIZES = [[2, 3], [], [0], [1], [1, 3, 0], [2, 1, 3]]


def fam_create(c):
    sch = schema(c.op)
    base = c.op.split("::")[1].split(".")[0]
    sh = dt = None
    for (name, ty, kwo, has_def) in sch:
        if ty == "Tensor" and sh is None:
            sh = c.shape()
            dt = c.dtype()
            c.g[name] = T(sh, dt, "a")
        elif ty == "Tensor" and name in ("other", "src"):
            o = c.pick(name, [(d + fs(s), (d, s)) for d in c.cfg["dtypes"] for s in ([sh] if name == "src" else [(1,)])])
            c.g[name] = T(o[1], o[0], "b")
        elif ty == "Tensor" and name == "value":
            o = c.pick(name, [(d, d) for d in c.cfg["dtypes"]])
            c.g[name] = T((), o, "b")
        elif name == "size":
            _put(c, name, c.pick(name, [(_lst(v), v) for v in (_SIZES if c.cfg["tier"] != "quick" else _SIZES[:4])]))
        elif name in ("fill_value", "value", "s") and ty == "number":
            _put(c, name, c.pick(name, [("int:2", 2), ("int:-3", -3), ("float:2.5", 2.5), ("bool:True", True),
                                        ("int:0", 0)]))
        elif name == "dtype" and ty == "int":  # ScalarType, required (convert_element_type)
            c.g[name] = ["D", c.pick("dtype_arg", [(d, d) for d in c.cfg["dtypes"]])]
        elif name == "dtype":
            v = c.pick("dtype_arg", [("omit", OMIT), ("None", None)] + [(d, d) for d in c.cfg["dtypes"]])
            if v is not OMIT:
                c.g[name] = ["N"] if v is None else ["D", v]
        elif name == "device":
            v = c.pick("device", [("omit", OMIT), ("cpu", "cpu")])
            if v is not OMIT:
                c.g[name] = ["DEV", v]
                c.g["pin_memory"] = S(False)
        elif name in ("layout", "pin_memory", "memory_format", "non_blocking"):
            pass
        elif name == "end" and base == "arange":
            _put(c, name, c.pick(name, [("int:5", 5), ("int:0", 0), ("float:2.5", 2.5), ("int:-3", -3), ("float:4.0", 4.0)]))
        elif name == "start":
            _put(c, name, c.pick(name, [("int:0", 0), ("int:1", 1), ("float:0.5", 0.5)]))
        elif name == "end":
            _put(c, name, c.pick(name, [("int:5", 5), ("float:2.5", 2.5), ("int:-3", -3)]))
        elif name == "step":
            _put(c, name, c.pick(name, [("omit", OMIT), ("int:2", 2), ("int:-1", -1), ("float:0.5", 0.5)]))
        elif name == "steps":
            _put(c, name, c.pick(name, [(str(v), v) for v in (5, 1, 0, 2)]))
        elif name == "window_length":
            _put(c, name, c.pick(name, [(str(v), v) for v in (5, 1, 0, 2, 8)]))
        elif not has_def:
            raise AssertionError(f"{c.op}: no menu for required argument {name}: {ty}")
    return c.case()


# ------------------------------------------------------------------------------------------------
# family 7: clamp
# ------------------------------------------------------------------------------------------------

CLAMP = ["clamp", "clamp.Tensor", "clamp_min", "clamp_min.Tensor", "clamp_max", "clamp_max.Tensor"]


def fam_clamp(c):
    sch = schema(c.op)
    sh = dt = None
    for (name, ty, kwo, has_def) in sch:
        if ty == "Tensor" and sh is None:
            sh = c.shape()
            dt = c.dtype()
            c.g[name] = T(sh, dt, "a")
        elif ty in ("Tensor", "Optional[Tensor]"):
            menu = ([("omit", OMIT)] if has_def else []) + ([("None", None)] if ty.startswith("Optional") else [])
            menu += [("t" + fs(s), s) for s in c.cfg["shapes"]]
            v = c.pick(name, menu)
            if v is None:
                c.g[name] = ["N"]
            elif v is not OMIT:
                c.g[name] = T(v, dt, "b" if name == "min" else "c")
        elif ty in ("number", "Optional[number]"):
            menu = ([("omit", OMIT)] if has_def else []) + ([("None", None)] if ty.startswith("Optional") else [])
            vals = [("int:-1", -1), ("int:2", 2), ("float:0.5", 0.5), ("float:-2.5", -2.5), ("bool:True", True)]
            v = c.pick(name, menu + vals)
            _put(c, name, v)
        elif not has_def:
            raise AssertionError(f"{c.op}: no menu for required argument {name}: {ty}")
    return c.case()


# ------------------------------------------------------------------------------------------------
# family 8: matmul / addmm / bmm / baddbmm / linear
# ------------------------------------------------------------------------------------------------

MATMUL = ["matmul", "mm", "bmm", "mv", "dot", "addmm", "addmv", "addr", "baddbmm", "addbmm", "linear"]
_MM_DT = ["f32", "f64", "f16", "i32", "i64"]
_MAT_SHAPES = [(3,), (2, 3), (3, 2), (3, 4), (2, 2, 3), (2, 3, 2), (1, 3, 2), (0, 3), (3, 0), (), (2,), (1, 2, 2, 3)]
_SELF_SHAPES = [(), (1,), (2,), (3,), (2, 2), (1, 2), (2, 1), (2, 2, 2), (1, 2, 2), (0,), (2, 0)]
# operands of the fused multiply-add overloads: a few compatible shapes incl. empty inner/outer dims
_FMA = {
    "addmm": {"mat1": [(2, 3), (2, 0), (0, 3)], "mat2": [(3, 2), (0, 2), (3, 0), (3, 1)]},
    "addmv": {"mat": [(2, 3), (0, 3), (2, 0)], "vec": [(3,), (0,)]},
    "addr": {"vec1": [(2,), (0,)], "vec2": [(2,), (3,), (0,)]},
    "baddbmm": {"batch1": [(2, 2, 3), (1, 2, 3), (2, 2, 0)], "batch2": [(2, 3, 2), (1, 3, 2), (2, 0, 2)]},
    "addbmm": {"batch1": [(2, 2, 3), (1, 2, 3), (2, 2, 0)], "batch2": [(2, 3, 2), (1, 3, 2), (2, 0, 2)]},
}


def fam_matmul(c):
    sch = schema(c.op)
    base = c.op.split("::")[1]
    first = True
    dt = None
    for (name, ty, kwo, has_def) in sch:
        if ty == "Tensor" and first:
            first = False
            dt = c.dtype(dtypes=_MM_DT)
            shapes = _SELF_SHAPES if base in _FMA else _MAT_SHAPES
            s = c.pick(name, [(fs(x), x) for x in shapes])
            c.g[name] = T(s, dt, "a")
        elif ty in ("Tensor", "Optional[Tensor]"):
            if name == "bias":
                menu = [("omit", OMIT), ("None", None)] + [(fs(x), x) for x in ((4,), (2,), (1,), (), (0,))]
            elif base in _FMA:
                menu = [(fs(x), x) for x in _FMA[base][name]]
            else:
                shapes = _MAT_SHAPES + ([(4, 3), (1, 3)] if base == "linear" else [])
                menu = [(fs(x), x) for x in shapes]
            v = c.pick(name, menu)
            if v is None:
                c.g[name] = ["N"]
            elif v is not OMIT:
                c.g[name] = T(v, dt, "b")
        elif name in ("beta", "alpha"):
            _put(c, name, c.pick(name, [("omit", OMIT), ("2", 2), ("-1", -1), ("0", 0), ("0.5", 0.5)]))
        elif not has_def:
            raise AssertionError(f"{c.op}: no menu for required argument {name}: {ty}")
    return c.case()


# ------------------------------------------------------------------------------------------------
# family 9: normalisations
# ------------------------------------------------------------------------------------------------

NORM = ["layer_norm", "native_layer_norm", "group_norm", "native_group_norm", "_native_batch_norm_legit_no_training",
        "_native_batch_norm_legit.no_stats", "native_batch_norm", "_native_batch_norm_legit", "instance_norm"]
_NORM_DT = ["f32", "f64", "f16"]
_NORM_SHAPES = [(2, 3), (2, 4, 3), (1, 4, 2, 2), (0, 4, 3), (4,), (2, 4)]


def fam_norm(c):
    sch = schema(c.op)
    base = c.op.split("::")[1]
    sh = dt = None
    ch = None
    nshape = None
    for (name, ty, kwo, has_def) in sch:
        if ty == "Tensor" and sh is None:
            dt = c.dtype(dtypes=_NORM_DT)
            sh = c.pick("shape", [(fs(x), x) for x in _NORM_SHAPES])
            c.g[name] = T(sh, dt, "w")  # moderate magnitudes: a normalisation cancels the mean
            ch = sh[1] if len(sh) >= 2 else (sh[0] if sh else 1)
        elif name == "normalized_shape":
            menu = [list(sh[k:]) for k in range(len(sh), -1, -1)] + [[7]]
            nshape = c.pick(name, [(_lst(v), v) for v in menu])
            _put(c, name, nshape)
        elif ty in ("Tensor", "Optional[Tensor]"):
            opt = ty.startswith("Optional")
            menu = ([("omit", OMIT)] if has_def else []) + ([("None", None)] if opt else []) + [("given", "given")]
            v = c.pick(name, menu)
            if v is None:
                c.g[name] = ["N"]
            elif v is not OMIT:
                wsh = tuple(nshape) if nshape is not None else (ch,)
                pat = "u" if name in ("running_var",) else ("b" if name in ("weight",) else "c")
                c.g[name] = T(wsh, dt, pat)
        elif name in ("num_groups", "group"):
            g = c.pick(name, [(str(v), v) for v in (1, 2, 4, 3)])
            if ch and ch % g == 0 and (ch // g) * (_numel(sh[2:]) if len(sh) > 2 else 1) <= 1:
                # a group of one element has variance 0: the result is rounding noise amplified by 1/sqrt(eps)
                raise explore.Prune()
            _put(c, name, g)
        elif name == "N":
            _put(c, name, sh[0] if sh else 1)
        elif name == "C":
            _put(c, name, ch)
        elif name == "HxW":
            _put(c, name, _numel(sh[2:]) if len(sh) > 2 else 1)
        elif name == "eps":
            v = c.pick(name, ([("omit", OMIT)] if has_def else []) + [("1e-05", 1e-5), ("0.5", 0.5)])
            _put(c, name, v)
        elif name == "momentum":
            _put(c, name, 0.1)
        elif name in ("training", "use_input_stats"):
            _put(c, name, c.pick(name, [("False", False), ("True", True)]))
        elif name in ("cudnn_enabled", "cudnn_enable"):
            if not has_def:
                _put(c, name, False)
        elif not has_def:
            raise AssertionError(f"{c.op}: no menu for required argument {name}: {ty}")
    if base == "instance_norm" and (len(sh) < 3 or _numel(sh[2:]) <= 1) and _numel(sh) > 0:
        raise explore.Prune()  # one element per instance: variance 0, the result is amplified rounding noise
    if "batch_norm" in base and c.f.get("training") == "False" and (
            "no_stats" in base or "None" in (c.f.get("running_mean"), c.f.get("running_var"))):
        # evaluation mode without running statistics is undefined in torch (eager dereferences a null tensor)
        raise explore.Prune()
    return c.case()


FAMILIES2 = [
    ("view", fam_view, ["aten::" + n for n in VIEW] + ["prims::" + n for n in VIEW_PRIMS]),
    ("index", fam_index, ["aten::" + n for n in INDEX] + ["prims::" + n for n in INDEX_PRIMS]),
    ("create", fam_create, ["aten::" + n for n in CREATE] + ["prims::" + n for n in CREATE_PRIMS]),
    ("clamp", fam_clamp, ["aten::" + n for n in CLAMP]),
    ("matmul", fam_matmul, ["aten::" + n for n in MATMUL]),
    ("norm", fam_norm, ["aten::" + n for n in NORM]),
]
