"""C18 part (a): trace language, the builder interpreter (code under test) and the replay oracle.

A trace is JSON:
  {"typed": bool, "calls": [call...]}
  call = {"k":"op","id":n,"op":name,"args":[opnd...],"attrs":{...},"out":int|[names]}
       | {"k":"push","name":s} | {"k":"pop"}
       | {"k":"if","id":n,"cond":opnd,"then":body,"else":body}            body = {"calls":[...],"ret":[opnd]}
       | {"k":"loop","id":n,"trip":opnd,"init":[opnd],"body":{"calls":[...],"ret_state":[opnd],"ret_scan":[opnd]}}
       | {"k":"scan","id":n,"init":[opnd],"xs":[opnd],"body":{...same...}}
       | {"k":"fn","id":n,"fn":name,"impl":"script"|"ir","args":[opnd...],"attrs":{..},"attr_style":"py"|"obj",
          "prefix":str,"out":None|[names]}
  opnd = {"v": id} | {"lit": python literal} | None
Values produced by call n are "%n.i"; graph inputs are "x","y","k","c"; loop body inputs "%n.it","%n.c","%n.s<j>",
scan body inputs "%n.s<j>","%n.e<j>".

``replay`` never touches onnxscript: every operator call is evaluated alone, as a one-node model, by
onnx.reference (and cross-checked on ORT); control flow and function calls are interpreted here from the ONNX
operator documentation.
"""
from __future__ import annotations

import json

import numpy as np
import onnx
import onnx.helper as oh
import onnx.numpy_helper

from vf import runeq

OPSET = 23

INPUTS = {  # id -> (numpy dtype, shape)
    "x": ("float32", (2, 3)),
    "y": ("float32", (2, 3)),
    "k": ("int64", (2, 3)),
    "c": ("bool", ()),
}

FEEDS = [
    {"x": np.array([[1, -2, 3], [0.5, -0.25, 4]], np.float32), "y": np.array([[2, 0.5, -1], [-3, 0.25, 1.5]], np.float32),
     "k": np.array([[1, 2, 3], [4, -1, -2]], np.int64), "c": np.array(True)},
    {"x": np.array([[-1.5, 0.75, 2], [8, -4, 0.125]], np.float32), "y": np.array([[1, -1, 3], [0.5, 2, -2]], np.float32),
     "k": np.array([[2, 1, 5], [-3, 7, 1]], np.int64), "c": np.array(False)},
]


class ReplayError(Exception):
    """The trace has no meaning (ill-typed call, bad shapes): nothing is concluded."""


class Unsettled(Exception):
    """ORT and the reference evaluator disagree on a single operator call: nothing is concluded."""


# ---------------------------------------------------------------------------------------------------------
# Literal meaning (written from tape_builder._cast_inputs' docstring and the tutorial, not from the code):
# a Python literal operand takes the element type of the first tensor operand bound to the same schema type
# variable; otherwise bool -> BOOL, int -> INT64, float -> FLOAT (lists: by their first element).
# ---------------------------------------------------------------------------------------------------------

_schema_cache = {}


def schema(op):
    s = _schema_cache.get(op)
    if s is None:
        s = _schema_cache[op] = onnx.defs.get_schema(op, OPSET, "")
    return s


def formal(s, j):
    ins = s.inputs
    if j < len(ins):
        return ins[j]
    if ins and ins[-1].option == onnx.defs.OpSchema.FormalParameterOption.Variadic:
        return ins[-1]
    return None


def py_default_dtype(lit):
    v = lit[0] if isinstance(lit, (list, tuple)) else lit
    if isinstance(v, bool):
        return np.dtype("bool")
    if isinstance(v, int):
        return np.dtype("int64")
    if isinstance(v, float):
        return np.dtype("float32")
    raise ReplayError(f"literal {lit!r}")


def literal_admissible(lit, dtype):
    """Is the literal exactly representable / unambiguous at this element type?"""
    vals = lit if isinstance(lit, (list, tuple)) else [lit]
    for v in vals:
        if isinstance(v, bool):
            if dtype.kind != "b":
                return False
        elif isinstance(v, int):
            if dtype.kind not in "iuf":
                return False
        elif isinstance(v, float):
            if dtype.kind != "f":
                return False
        else:
            return False
    return True


def bind_literals(op, operands):
    """operands: list of np.ndarray | ("lit", value) | None  ->  list of arrays/None; raises ReplayError."""
    s = schema(op) if op is not None else None
    out = []
    for j, o in enumerate(operands):
        if o is None or isinstance(o, np.ndarray):
            out.append(o)
            continue
        lit = o[1]
        dt = None
        f = formal(s, j) if s is not None else None
        if f is not None and "(" not in f.type_str:
            for i, other in enumerate(operands):
                fo = formal(s, i)
                if isinstance(other, np.ndarray) and fo is not None and fo.type_str == f.type_str:
                    dt = other.dtype
                    break
        if dt is None:
            dt = py_default_dtype(lit)
        if not literal_admissible(lit, dt):
            raise ReplayError(f"literal {lit!r} not admissible at {dt}")
        out.append(np.array(lit, dtype=dt))
    return out


def typecheck(op, arrays):
    """ONNX schema type constraints (the reference evaluator is lenient about them)."""
    s = schema(op)
    cons = {c.type_param_str: set(c.allowed_type_strs) for c in s.type_constraints}
    bound = {}
    n_req = sum(1 for i in s.inputs if i.option == onnx.defs.OpSchema.FormalParameterOption.Single)
    if len([a for a in arrays]) < n_req:
        raise ReplayError("missing required input")
    for j, a in enumerate(arrays):
        f = formal(s, j)
        if f is None:
            raise ReplayError("too many inputs")
        if a is None:
            if f.option == onnx.defs.OpSchema.FormalParameterOption.Single:
                raise ReplayError("required input omitted")
            continue
        ts = f"tensor({_onnx_type_name(a.dtype)})"
        if f.type_str in cons:
            if ts not in cons[f.type_str]:
                raise ReplayError(f"{op}: {ts} not allowed for {f.type_str}")
            if f.is_homogeneous or f.option != onnx.defs.OpSchema.FormalParameterOption.Variadic:
                if bound.setdefault(f.type_str, ts) != ts:
                    raise ReplayError(f"{op}: {f.type_str} bound to {bound[f.type_str]} and {ts}")
        elif f.type_str != ts:
            raise ReplayError(f"{op}: input {j} must be {f.type_str}, got {ts}")


def _onnx_type_name(dt):
    return {"float32": "float", "float64": "double", "int64": "int64", "int32": "int32", "bool": "bool",
            "float16": "float16", "uint8": "uint8", "int8": "int8"}[np.dtype(dt).name]


# ---------------------------------------------------------------------------------------------------------
# One-node evaluation (memoised per process)
# ---------------------------------------------------------------------------------------------------------

_node_memo = {}
STATS = {"node_evals": 0, "node_memo_hits": 0, "ort_node_sessions": 0}


def _attr_proto(name, v):
    if isinstance(v, dict) and "dtype" in v:       # Cast.to and friends given symbolically
        return oh.make_attribute(name, int(oh.np_dtype_to_tensor_dtype(np.dtype(v["dtype"]))))
    return oh.make_attribute(name, v)


def _one_node_model(op, attrs, arrays, out_types=None, nout=1):
    ins, names = [], []
    for j, a in enumerate(arrays):
        if a is None:
            names.append("")
            continue
        nm = f"i{j}"
        names.append(nm)
        ins.append(oh.make_tensor_value_info(nm, oh.np_dtype_to_tensor_dtype(a.dtype), list(a.shape)))
    while names and names[-1] == "":
        names.pop()
    outs = [f"o{i}" for i in range(nout)]
    node = oh.make_node(op, names, outs)
    for k in sorted(attrs):
        node.attribute.append(_attr_proto(k, attrs[k]))
    if out_types is None:
        vouts = [onnx.ValueInfoProto(name=o) for o in outs]
    else:
        vouts = [oh.make_tensor_value_info(o, oh.np_dtype_to_tensor_dtype(t), None) for o, t in zip(outs, out_types)]
    g = oh.make_graph([node], "one", ins, vouts)
    return oh.make_model(g, opset_imports=[oh.make_opsetid("", OPSET)], ir_version=10)


def eval_node(op, attrs, arrays, nout=1, cross_check=True):
    """-> list of arrays.  ReplayError when the call has no meaning; Unsettled when ORT != reference."""
    key = (op, json.dumps(attrs, sort_keys=True), nout, cross_check,
           tuple(None if a is None else (a.dtype.str, a.shape, a.tobytes()) for a in arrays))
    hit = _node_memo.get(key)
    if hit is not None:
        STATS["node_memo_hits"] += 1
        if isinstance(hit, Exception):
            raise hit
        return hit
    STATS["node_evals"] += 1
    try:
        res = _eval_node(op, attrs, arrays, nout, cross_check)
    except (ReplayError, Unsettled) as e:
        _node_memo[key] = e
        raise
    _node_memo[key] = res
    return res


def _eval_node(op, attrs, arrays, nout, cross_check):
    typecheck(op, arrays)
    if op in ("Div", "Mod") and arrays[1].dtype.kind in "iu" and not arrays[1].all():
        raise ReplayError("integer division by zero")
    feeds = {f"i{j}": a for j, a in enumerate(arrays) if a is not None}
    m = _one_node_model(op, attrs, arrays, nout=nout)
    # the reference evaluator (numpy) accepts calls the ONNX operator specification rejects (rank, axis range,
    # split sizes...): ask ONNX's own strict shape inference, with every operand value known
    ms = onnx.ModelProto()
    ms.CopyFrom(m)
    del ms.graph.input[:]
    for nm, a in feeds.items():
        ms.graph.initializer.append(onnx.numpy_helper.from_array(a, nm))
    try:
        onnx.shape_inference.infer_shapes(ms, strict_mode=True, data_prop=True)
    except Exception as e:  # noqa: BLE001
        raise ReplayError(f"{op}: rejected by ONNX inference: {str(e).strip().splitlines()[-1][:120]}") from None
    try:
        from onnx.reference import ReferenceEvaluator
        import warnings
        with warnings.catch_warnings(), np.errstate(all="ignore"):
            warnings.simplefilter("ignore")
            ref = ReferenceEvaluator(m).run(None, feeds)
    except Exception as e:  # noqa: BLE001 - ill-typed / bad shapes: the call has no meaning
        raise ReplayError(f"{op}: {type(e).__name__}: {str(e)[:120]}") from None
    ref = [np.asarray(r) for r in ref]
    if cross_check:
        m2 = _one_node_model(op, attrs, arrays, out_types=[r.dtype for r in ref], nout=nout)
        STATS["ort_node_sessions"] += 1
        try:
            got = runeq.run_ort(m2, feeds)
        except runeq.RunError as e:
            raise Unsettled(f"{op}: ORT {e.kind}") from None
        d = runeq.compare(got, ref)
        if d:
            raise Unsettled(f"{op}: ORT vs reference: {d}")
    return ref


# ---------------------------------------------------------------------------------------------------------
# Replay
# ---------------------------------------------------------------------------------------------------------

def _operand(env, o):
    if o is None:
        return None
    if "v" in o:
        try:
            return env[o["v"]]
        except KeyError:
            raise ReplayError(f"unknown value {o['v']}") from None
    return ("lit", o["lit"])


def _attrs_resolved(attrs, fn_attrs):
    out = {}
    for k, v in attrs.items():
        if isinstance(v, dict) and "ref" in v:
            if fn_attrs is None or fn_attrs.get(v["ref"]) is None:
                raise ReplayError(f"attribute {v['ref']} has no value")
            out[k] = fn_attrs[v["ref"]]
        else:
            out[k] = v
    return out


def run_calls(calls, env, fn_attrs=None, cross_check=True):
    """Evaluate calls in order, extending env.  Scope pushes have no meaning for values."""
    from vf.props import c18_fns
    for c in calls:
        k = c["k"]
        if k in ("push", "pop"):
            continue
        n = c["id"]
        if k == "op":
            ops = [_operand(env, o) for o in c["args"]]
            arrays = bind_literals(c["op"], ops)
            nout = c["out"] if isinstance(c["out"], int) else len(c["out"])
            res = eval_node(c["op"], _attrs_resolved(c["attrs"], fn_attrs), arrays, nout, cross_check)
            for i, r in enumerate(res):
                env[f"%{n}.{i}"] = r
        elif k == "if":
            cond = bind_literals(None, [_operand(env, c["cond"])])[0]
            if cond.dtype != np.bool_ or cond.size != 1:
                raise ReplayError("If condition must be a bool scalar")
            body = c["then"] if bool(cond.reshape(())) else c["else"]
            e2 = dict(env)
            run_calls(body["calls"], e2, fn_attrs, cross_check)
            for i, r in enumerate(body["ret"]):
                env[f"%{n}.{i}"] = _as_value(e2, r)
            _export(e2, env)
        elif k == "loop":
            trip = bind_literals(None, [_operand(env, c["trip"])])[0]
            states = [_need_array(env, o) for o in c["init"]]
            body = c["body"]
            scans = [[] for _ in body["ret_scan"]]
            cond = True
            for it in range(int(trip.reshape(()))):
                if not cond:
                    break
                e2 = dict(env)
                e2[f"%{n}.it"] = np.array(it, np.int64)
                e2[f"%{n}.c"] = np.array(cond)
                for j, s in enumerate(states):
                    e2[f"%{n}.s{j}"] = s
                run_calls(body["calls"], e2, fn_attrs, cross_check)
                cond = bool(_as_value(e2, body["ret_cond"]).reshape(()))
                states = _same_types(states, [_as_value(e2, r) for r in body["ret_state"]])
                for j, r in enumerate(body["ret_scan"]):
                    scans[j].append(_as_value(e2, r))
                _export(e2, env)
            outs = states + [np.stack(s) for s in scans]
            for i, r in enumerate(outs):
                env[f"%{n}.{i}"] = r
        elif k == "scan":
            states = [_need_array(env, o) for o in c["init"]]
            xs = [_need_array(env, o) for o in c["xs"]]
            body = c["body"]
            scans = [[] for _ in body["ret_scan"]]
            for t in range(xs[0].shape[0]):
                e2 = dict(env)
                for j, s in enumerate(states):
                    e2[f"%{n}.s{j}"] = s
                for j, xv in enumerate(xs):
                    e2[f"%{n}.e{j}"] = xv[t]
                run_calls(body["calls"], e2, fn_attrs, cross_check)
                states = _same_types(states, [_as_value(e2, r) for r in body["ret_state"]])
                for j, r in enumerate(body["ret_scan"]):
                    scans[j].append(_as_value(e2, r))
                _export(e2, env)
            outs = states + [np.stack(s) for s in scans]
            for i, r in enumerate(outs):
                env[f"%{n}.{i}"] = r
        elif k == "fn":
            spec = c18_fns.SPEC[c["fn"]]
            args = bind_literals(None, [_operand(env, o) for o in c["args"]])
            if len(args) != len(spec["params"]) or any(a is None for a in args):
                raise ReplayError("function arity")
            for pname, a in zip(spec["params"], args):
                t = spec.get("param_types", {}).get(pname)
                if t is not None and (a.dtype != np.dtype(t[0]) or list(a.shape) != list(t[1])):
                    raise ReplayError("argument does not have the declared type of the formal")
            fa = {name: d["default"] for name, d in spec["attrs"].items()}
            for name, v in c["attrs"].items():
                if name not in fa:
                    raise ReplayError(f"unknown attribute {name}")
                fa[name] = v
            e2 = dict(zip(spec["params"], args))
            run_calls(spec["calls"], e2, fa, cross_check)
            for i, r in enumerate(spec["ret"]):
                env[f"%{n}.{i}"] = e2[r]
        else:
            raise ValueError(k)
    return env


def _same_types(old, new):
    for a, b in zip(old, new):
        if a.dtype != b.dtype or a.shape != b.shape:
            raise ReplayError("loop-carried state changes type or shape")
    return new


def _export(inner, outer):
    """Keep body-local values (first seen) so that the harness can type subgraph formals like a user would."""
    for kk, vv in inner.items():
        if kk not in outer:
            outer[kk] = vv


def _need_array(env, o):
    return bind_literals(None, [_operand(env, o)])[0]


def _as_value(env, o):
    v = _operand(env, o)
    if not isinstance(v, np.ndarray):
        raise ReplayError("a body must return values")
    return v


def main_outputs(trace):
    """Ids of all values produced at the top level, in program order."""
    from vf.props import c18_fns
    out = []
    for c in trace["calls"]:
        k = c["k"]
        if k in ("push", "pop"):
            continue
        n = c["id"]
        if k == "op":
            cnt = c["out"] if isinstance(c["out"], int) else len(c["out"])
        elif k == "if":
            cnt = len(c["then"]["ret"])
        elif k in ("loop", "scan"):
            cnt = len(c["body"]["ret_state"]) + len(c["body"]["ret_scan"])
        else:
            cnt = len(c18_fns.SPEC[c["fn"]]["ret"])
        out += [f"%{n}.{i}" for i in range(cnt)]
    return out


def replay(trace, feeds, cross_check=True):
    env = {k: np.asarray(v) for k, v in feeds.items()}
    run_calls(trace["calls"], env, None, cross_check)
    return env


# ---------------------------------------------------------------------------------------------------------
# The builder interpreter: drives the real GraphBuilder / OpBuilder
# ---------------------------------------------------------------------------------------------------------

class Refused(Exception):
    def __init__(self, where, exc):
        super().__init__(f"{where}: {type(exc).__name__}: {str(exc)[:200]}")
        self.where = where
        self.exc_type = type(exc).__name__


_IR_FN_CACHE = {}


def _np_to_ir_dtype(ir, dt):
    return ir.DataType.from_numpy(np.dtype(dt))


def _py_attrs(ir, attrs, style="py"):
    out = {}
    for k, v in attrs.items():
        if isinstance(v, dict) and "ref" in v:
            t = {"float": ir.AttributeType.FLOAT, "int": ir.AttributeType.INT}[v.get("type", "float")]
            out[k] = ir.RefAttr(k, v["ref"], t)
        elif isinstance(v, dict) and "dtype" in v:
            out[k] = _np_to_ir_dtype(ir, v["dtype"])
        elif style == "obj":
            if isinstance(v, float):
                out[k] = ir.AttrFloat32(k, v)
            elif isinstance(v, int):
                out[k] = ir.AttrInt64(k, v)
            else:
                out[k] = v
        else:
            out[k] = v
    return out


def build_ir_function(name):
    """ir.Function built with builder.build_function from the SPEC (one per process)."""
    import onnx_ir as ir
    from onnxscript._internal import builder as B
    from vf.props import c18_fns
    if name in _IR_FN_CACHE:
        return _IR_FN_CACHE[name]
    spec = c18_fns.SPEC[name]

    def trace_fn(op, *formals):
        env = dict(zip(spec["params"], formals))
        calls = json.loads(json.dumps(spec["calls"]))
        for c in calls:
            for k, v in c["attrs"].items():
                if isinstance(v, dict) and "ref" in v:
                    v["type"] = spec["attrs"][v["ref"]]["type"]
        _build_calls(ir, B, op, calls, env, None)
        rets = [env[r] for r in spec["ret"]]
        return rets if len(rets) > 1 else rets[0]

    attrs = []
    for an, d in spec["attrs"].items():
        t = {"float": ir.AttributeType.FLOAT, "int": ir.AttributeType.INT}[d["type"]]
        attrs.append(ir.Attr(an, t, d["default"]))
    def formal_value(p):
        t = spec.get("param_types", {}).get(p)
        if t is None:
            return B.make_value(p)
        return B.make_value(p, ir.TypeAndShape(ir.TensorType(_np_to_ir_dtype(ir, t[0])), ir.Shape(list(t[1]))))

    fn = B.build_function(trace_fn, [formal_value(p) for p in spec["params"]], domain="vf.ir", name="ir_" + name,
                          attributes=attrs, opset_imports={"": OPSET})
    _IR_FN_CACHE[name] = fn
    return fn


def _arg(env, o):
    if o is None:
        return None
    if "v" in o:
        return env[o["v"]]
    lit = o["lit"]
    return list(lit) if isinstance(lit, list) else lit


def _build_calls(ir, B, op, calls, env, mode_of, expected=None):
    """Execute calls through OpBuilder ``op``; env: id -> ir.Value.  mode_of(call) -> "call" | "inline"."""
    from vf.props import c18_fns
    gb = op.builder

    def val(name, like=None, drop_first=False, typed=True):
        """A fresh formal / declared output, typed the way the tutorial does (FLOAT[2, 3]) when the type is known."""
        arr = expected.get(like) if (expected is not None and like is not None and typed) else None
        if arr is None:
            return B.make_value(name)
        shape = list(arr.shape)[1:] if drop_first else list(arr.shape)
        return B.make_value(name, ir.TypeAndShape(ir.TensorType(_np_to_ir_dtype(ir, arr.dtype)), ir.Shape(shape)))

    for c in calls:
        k = c["k"]
        if k == "push":
            gb.push_module(c["name"])
            continue
        if k == "pop":
            gb.pop_module()
            continue
        n = c["id"]
        if k == "op":
            kwargs = _py_attrs(ir, c["attrs"])
            if c["out"] != 1:
                kwargs["_outputs"] = c["out"] if isinstance(c["out"], int) else list(c["out"])
            res = getattr(op, c["op"])(*[_arg(env, o) for o in c["args"]], **kwargs)
            res = [res] if isinstance(res, ir.Value) else list(res)
        elif k == "if":
            def mk(body):
                def f(bop):
                    e2 = dict(env)
                    _build_calls(ir, B, bop, body["calls"], e2, mode_of, expected)
                    r = [_arg(e2, o) for o in body["ret"]]
                    return r if len(r) > 1 else r[0]
                return f
            dt = c.get("decl_typed", True)
            tb = gb.subgraph(mk(c["then"]), [], [val(f"if{n}_then_out{i}", f"%{n}.{i}", typed=dt)
                                                 for i in range(len(c["then"]["ret"]))], name=f"then{n}")
            eb = gb.subgraph(mk(c["else"]), [], [val(f"if{n}_else_out{i}", f"%{n}.{i}", typed=dt)
                                                 for i in range(len(c["else"]["ret"]))], name=f"else{n}")
            nout = len(c["then"]["ret"])
            res = op.If(_arg(env, c["cond"]), then_branch=tb, else_branch=eb, **({"_outputs": nout} if nout != 1 else {}))
            res = [res] if isinstance(res, ir.Value) else list(res)
        elif k in ("loop", "scan"):
            body = c["body"]
            ns, nscan = len(body["ret_state"]), len(body["ret_scan"])
            dt = c.get("decl_typed", True)
            if k == "loop":
                ids = [f"%{n}.it", f"%{n}.c"] + [f"%{n}.s{j}" for j in range(ns)]
                formals = [val(f"loop{n}_it", ids[0]), val(f"loop{n}_cond_in", ids[1])] + \
                          [val(f"loop{n}_s{j}", ids[2 + j]) for j in range(ns)]
                rets = [body["ret_cond"]] + body["ret_state"] + body["ret_scan"]
                decl = [val(f"loop{n}_cond_out", ids[1], typed=dt)]
            else:
                nx = len(c["xs"])
                ids = [f"%{n}.s{j}" for j in range(ns)] + [f"%{n}.e{j}" for j in range(nx)]
                formals = [val(f"scan{n}_{i.split('.')[-1]}", i) for i in ids]
                rets = body["ret_state"] + body["ret_scan"]
                decl = []
            decl += [val(f"{k}{n}_state_out{j}", f"%{n}.{j}", typed=dt) for j in range(ns)] + \
                    [val(f"{k}{n}_scan_out{j}", f"%{n}.{ns + j}", drop_first=True, typed=dt) for j in range(nscan)]

            def f(bop, *vals, _ids=ids, _rets=rets, _body=body):
                e2 = dict(env)
                e2.update(zip(_ids, vals))
                _build_calls(ir, B, bop, _body["calls"], e2, mode_of, expected)
                return [_arg(e2, o) for o in _rets]
            g = gb.subgraph(f, formals, decl, name=f"{k}{n}_body")
            nout = ns + nscan
            extra = {"_outputs": nout} if nout != 1 else {}
            if k == "loop":
                res = op.Loop(_arg(env, c["trip"]), True, *[_arg(env, o) for o in c["init"]], body=g, **extra)
            else:
                res = op.Scan(*[_arg(env, o) for o in c["init"]], *[_arg(env, o) for o in c["xs"]], body=g,
                              num_scan_inputs=len(c["xs"]), **extra)
            res = [res] if isinstance(res, ir.Value) else list(res)
        elif k == "fn":
            fn = c18_fns.SCRIPT[c["fn"]] if c["impl"] == "script" else build_ir_function(c["fn"])
            mode = mode_of(c)
            kwargs = _py_attrs(ir, c["attrs"], c.get("attr_style", "py"))
            if c.get("out") is not None:
                kwargs["_outputs"] = list(c["out"])
            args = [_arg(env, o) for o in c["args"]]
            if mode == "call":
                res = op.call(fn, *args, **kwargs)
            else:
                if c.get("prefix"):
                    kwargs["_prefix"] = c["prefix"]
                res = op.call_inline(fn, *args, **kwargs)
            res = [res] if isinstance(res, ir.Value) else list(res)
        else:
            raise ValueError(k)
        for i, r in enumerate(res):
            env[f"%{n}.{i}"] = r


def build(trace, expected=None, mode_of=None):
    """Run the trace on a fresh GraphBuilder.  -> dict(model=ModelProto, out_ids=[...], notes={...}).

    ``expected``: replayed env for FEEDS[0] - used ONLY to give type/shape to graph outputs the builder left
    untyped (as a user must before serialising) and never to override what the builder inferred.
    Raises Refused when the builder raises.
    """
    import onnx_ir as ir
    from onnxscript._internal import builder as B
    g = ir.Graph(name="c18", inputs=[], outputs=[], nodes=[], opset_imports={"": OPSET})
    gb = B.GraphBuilder(g)
    env = {}
    for name, (dt, shape) in INPUTS.items():
        if trace.get("typed", True):
            env[name] = gb.input(name, _np_to_ir_dtype(ir, dt), list(shape))
        else:
            v = ir.Value(name=name)
            g.inputs.append(v)
            env[name] = v
    try:
        _build_calls(ir, B, gb.op, trace["calls"], env, mode_of or (lambda c: "call"), expected)
    except Exception as e:  # noqa: BLE001 - the property allows refusal
        raise Refused("trace", e) from None
    notes = {"scope_left": len(gb._scope_stack)}
    if not trace.get("typed", True):
        for name, (dt, shape) in INPUTS.items():
            env[name].type = ir.TensorType(_np_to_ir_dtype(ir, dt))
            env[name].shape = ir.Shape(list(shape))
    out_ids, seen = [], set()
    filled = 0
    for oid in main_outputs(trace):
        v = env.get(oid)
        if v is None or id(v) in seen:
            continue
        seen.add(id(v))
        if expected is not None and oid in expected:
            arr = expected[oid]
            if v.type is None:
                v.type = ir.TensorType(_np_to_ir_dtype(ir, arr.dtype))
                filled += 1
            if v.shape is None:
                v.shape = ir.Shape(list(arr.shape))
                filled += 1
        try:
            g.outputs.append(v)
        except Exception as e:  # noqa: BLE001 - e.g. the value was captured as an output of a subgraph
            raise Refused("assemble-outputs", e) from None
        out_ids.append(oid)
    notes["outputs_typed_by_harness"] = filled
    fns = list(gb.functions.values())
    missing = sorted({f.domain for f in fns if f.domain not in g.opset_imports})
    notes["missing_function_imports"] = missing
    try:
        raw = ir.serde.serialize_model(ir.Model(g, ir_version=10, functions=fns))
    except Exception as e:  # noqa: BLE001
        raise Refused("serialize", e) from None
    fixed = raw
    if missing:
        for d in missing:
            g.opset_imports[d] = 1
        fixed = ir.serde.serialize_model(ir.Model(g, ir_version=10, functions=fns))
    return {"model": fixed, "raw_model": raw, "out_ids": out_ids, "notes": notes,
            "init_names": list(g.initializers.keys())}
