"""C15 helper: field-wise comparison of onnx protobuf messages (independent of onnx_ir).

diff(a, b) -> list of (path, kind, detail) with kind in
    missing  : populated in a, absent in b
    default  : explicitly set in a to the field default (or an empty sub-message other than a shape), absent in b
    default+ : the converse (absent in a, explicitly set to the default in b)
    changed  : populated in both with different values
    extra    : absent in a, populated in b
Map-like repeated fields are matched by key (order-insensitive); everything else positionally.
Floats are compared by bit pattern.
"""
from __future__ import annotations

import struct

from google.protobuf.descriptor import FieldDescriptor as FD

# (message type name, field name) -> key function for map-like repeated message fields
_KEYED = {
    ("ModelProto", "opset_import"): lambda e: e.domain,
    ("ModelProto", "metadata_props"): lambda e: e.key,
    ("ModelProto", "functions"): lambda e: f"{e.domain}::{e.name}:{e.overload}",
    ("GraphProto", "initializer"): lambda e: e.name,
    ("GraphProto", "sparse_initializer"): lambda e: e.values.name,
    ("GraphProto", "value_info"): lambda e: e.name,
    ("GraphProto", "metadata_props"): lambda e: e.key,
    ("GraphProto", "quantization_annotation"): lambda e: e.tensor_name,
    ("NodeProto", "metadata_props"): lambda e: e.key,
    ("NodeProto", "attribute"): lambda e: e.name,
    ("TensorProto", "metadata_props"): lambda e: e.key,
    ("TensorProto", "external_data"): lambda e: e.key,
    ("ValueInfoProto", "metadata_props"): lambda e: e.key,
    ("FunctionProto", "metadata_props"): lambda e: e.key,
    ("FunctionProto", "opset_import"): lambda e: e.domain,
    ("FunctionProto", "value_info"): lambda e: e.name,
    ("FunctionProto", "attribute_proto"): lambda e: e.name,
    ("TensorAnnotation", "quant_parameter_tensor_names"): lambda e: e.key,
}
_NODE_KEY = lambda n: "out:" + next((o for o in n.output if o), "") if n.output else "op:" + n.op_type  # noqa: E731


def canon(msg):
    return msg.SerializeToString(deterministic=True)


def _scalar_eq(fd, x, y):
    if fd.type == FD.TYPE_FLOAT:
        return struct.pack("<f", x) == struct.pack("<f", y)
    if fd.type == FD.TYPE_DOUBLE:
        return struct.pack("<d", x) == struct.pack("<d", y)
    return x == y


def _is_repeated(fd):
    r = getattr(fd, "is_repeated", None)
    if r is not None and not callable(r):
        return bool(r)
    return fd.label == FD.LABEL_REPEATED


def _short(v):
    s = repr(v)
    return s if len(s) <= 80 else s[:77] + "..."


def diff(a, b, path="", keyed_nodes=False, out=None, limit=40):
    if out is None:
        out = []
    if len(out) >= limit:
        return out
    if canon(a) == canon(b):
        return out
    n0 = len(out)
    tname = a.DESCRIPTOR.name
    fa = {fd.name: (fd, v) for fd, v in a.ListFields()}
    fb = {fd.name: (fd, v) for fd, v in b.ListFields()}
    for name in list(fa) + [n for n in fb if n not in fa]:
        fd = (fa.get(name) or fb.get(name))[0]
        p = f"{path}.{name}" if path else name
        if _is_repeated(fd):
            va = list(fa[name][1]) if name in fa else []
            vb = list(fb[name][1]) if name in fb else []
            if fd.type != FD.TYPE_MESSAGE:
                same = len(va) == len(vb) and all(_scalar_eq(fd, x, y) for x, y in zip(va, vb))
                if not same:
                    kind = "missing" if not vb else ("extra" if not va else "changed")
                    out.append((p, kind, f"{_short(va)} -> {_short(vb)}"))
                continue
            keyf = _KEYED.get((tname, name))
            if keyf is None and keyed_nodes and name == "node":
                keyf = _NODE_KEY
            if keyf is None:
                for i in range(max(len(va), len(vb))):
                    q = f"{p}[{i}]"
                    if i >= len(vb):
                        out.append((q, "missing", _short(canon(va[i]))))
                    elif i >= len(va):
                        out.append((q, "extra", _short(canon(vb[i]))))
                    else:
                        diff(va[i], vb[i], q, keyed_nodes, out, limit)
                continue
            da, db = {}, {}
            for e in va:
                da.setdefault(keyf(e), []).append(e)
            for e in vb:
                db.setdefault(keyf(e), []).append(e)
            for k in list(da) + [k for k in db if k not in da]:
                la, lb = da.get(k, []), db.get(k, [])
                q = f"{p}[{k}]"
                for i in range(max(len(la), len(lb))):
                    if i >= len(lb):
                        out.append((q, "missing", "entry" if i == 0 else "duplicate entry"))
                    elif i >= len(la):
                        out.append((q, "extra", "entry" if i == 0 else "duplicate entry"))
                    else:
                        diff(la[i], lb[i], q, keyed_nodes, out, limit)
            continue
        # singular
        if fd.type == FD.TYPE_MESSAGE:
            if name in fa and name in fb:
                diff(fa[name][1], fb[name][1], p, keyed_nodes, out, limit)
            elif name in fa:
                sub = fa[name][1]
                empty = not sub.ListFields()
                out.append((p, "default" if (empty and name != "shape") else "missing", _short(canon(sub))))
            else:
                sub = fb[name][1]
                empty = not sub.ListFields()
                out.append((p, "default+" if (empty and name != "shape") else "extra", _short(canon(sub))))
            continue
        if name in fa and name in fb:
            if not _scalar_eq(fd, fa[name][1], fb[name][1]):
                out.append((p, "changed", f"{_short(fa[name][1])} -> {_short(fb[name][1])}"))
        elif name in fa:
            v = fa[name][1]
            out.append((p, "default" if v == fd.default_value else "missing", _short(v)))
        else:
            v = fb[name][1]
            out.append((p, "default+" if v == fd.default_value else "extra", _short(v)))
    if len(out) == n0:
        # same fields by value but different bytes: order inside a map-like field (use sort_keyed first to
        # rule that out) or a float whose signalling bit differs
        out.append((path or "<root>", "bits", "field-wise equal, serialization differs"))
    return out


def sort_keyed(msg):
    """Copy of msg with every map-like repeated field sorted by key (stable), recursively."""
    m = type(msg)()
    m.CopyFrom(msg)
    _sort_in_place(m)
    return m


def _sort_in_place(m):
    tname = m.DESCRIPTOR.name
    for fd, v in m.ListFields():
        if fd.type != FD.TYPE_MESSAGE:
            continue
        if _is_repeated(fd):
            for e in v:
                _sort_in_place(e)
            keyf = _KEYED.get((tname, fd.name))
            if keyf is not None and len(v) > 1:
                items = sorted((type(e).FromString(e.SerializeToString()) for e in v), key=keyf)
                del v[:]
                v.extend(items)
        else:
            _sort_in_place(v)


def norm_path(path):
    """Strip element selectors: graph.node[out:t].metadata_props[a] -> graph.node.metadata_props"""
    out = []
    depth = 0
    for ch in path:
        if ch == "[":
            depth += 1
        elif ch == "]":
            depth -= 1
        elif depth == 0:
            out.append(ch)
    return "".join(out)
