"""C14 subprocess side: the event alphabet, the shared module-level objects, the canonical process state.

This module is imported ONLY inside a fresh interpreter started by ``vf.statespace.run_job`` (one per
history, or one per BFS frontier state).  Everything that the property calls "the same decorator, pass and
rule objects" lives at module level here (created once per process, before the first event) or inside
onnxscript itself (``rewriter._DEFAULT_REWRITE_RULES`` and the ``rules.*`` singletons used by ``optimize``).

Every event builds its input afresh with onnx.helper / a fresh python module, calls the public API on the
shared objects and returns ``{output name: serialized bytes}``.  A refusal (exception) is an outcome.

Protocol (stdin JSON -> stdout JSON, see ``main``):
  {"mode": "linear", "history": [ev...], "bytes": bool}
  {"mode": "expand", "history": [ev...], "events": [ev...]}      # replay, then fork one child per event
  {"mode": "family", "sizes": [2,3]}                             # translate the set-order script family
"""
from __future__ import annotations

import base64
import hashlib
import itertools
import json
import linecache
import os
import select
import sys
import time
import types

import numpy as np
import onnx
from onnx import TensorProto, helper, numpy_helper

import onnxscript
import onnxscript.optimizer
import onnxscript.rewriter
import onnxscript.version_converter
from onnxscript import ir
from onnxscript import opset15 as _op15
from onnxscript import opset18 as _op18
from onnxscript._internal import evaluator as _evaluator
from onnxscript._internal import values as _values
from onnxscript.optimizer import _constant_folding
from onnxscript.rewriter import _pattern_ir, _rewrite_rule
from onnxscript.rewriter import pattern as _pattern
from onnxscript.rewriter._basics import MatchFailureError, MatchResult
from onnxscript.rewriter.rules.fusion import _rms_normalization

# ---------------------------------------------------------------------------------------------------------
# scripts (source text; compiled into a FRESH module at every translate event)
# ---------------------------------------------------------------------------------------------------------

from vf.props.c14 import EVENT_NAMES, NAMES  # noqa: E402  (light module: no onnxscript import)

_HDR18 = ("import numpy as np\nfrom onnxscript import opset18 as op\n"
          "from onnxscript.onnx_types import FLOAT, INT64, BOOL\n")
_HDR15 = ("import numpy as np\nfrom onnxscript import opset15 as op\n"
          "from onnxscript.onnx_types import FLOAT, INT64, BOOL\n")

S1_SRC = _HDR18 + '''
def s1(x: FLOAT[4], n: INT64) -> FLOAT[4]:
    if op.ReduceSum(x) > 0.0:
        alpha = x + 1.0
        beta = x * 2.0
    else:
        alpha = x - 1.0
        beta = x * 3.0
    acc = alpha
    run = beta
    for i in range(n):
        acc = acc + run
        run = run * 2.0
    return acc + run
'''

# raises mid-way: the undefined name is met inside the then-branch, after nodes were emitted and while a
# nested scope is open
S2_SRC = _HDR18 + '''
def s2(x: FLOAT[4]) -> FLOAT[4]:
    base = x + 1.0
    if op.ReduceSum(base) > 0.0:
        gamma = base + 1.0
        delta = c14_undefined_name + gamma
    else:
        gamma = base
        delta = base
    return gamma + delta
'''

# the same computation written for opset 11 and for opset 18: ops whose input/attribute split, literal typing or
# availability differs between the two versions (ReduceSum/Squeeze/Unsqueeze axes, Clip bounds, >= needs
# GreaterOrEqual from opset 12 on) - a per-operator memo kept without the opset version shows as a history effect
_HDR11 = ("import numpy as np\nfrom onnxscript import opset11 as op\n"
          "from onnxscript.onnx_types import FLOAT, INT64, BOOL\n")
SX11_SRC = _HDR11 + '''
def sx11(x: FLOAT[1, 4], n: INT64) -> FLOAT[4]:
    s = op.Squeeze(x, axes=[0])
    t = op.ReduceSum(s, axes=[0], keepdims=0)
    u = op.Unsqueeze(op.Clip(s, 0.0, 6.0), axes=[0])
    acc = op.Squeeze(u, axes=[0])
    for i in range(n):
        if op.Less(t, 3.0):
            acc = acc + 1.0
        else:
            acc = acc * 2.0
    return acc
'''
SX18_SRC = _HDR18 + '''
def sx18(x: FLOAT[1, 4], n: INT64) -> FLOAT[4]:
    s = op.Squeeze(x, [0])
    t = op.ReduceSum(s, [0], keepdims=0)
    u = op.Unsqueeze(op.Clip(s, 0.0, 6.0), [0])
    acc = op.Squeeze(u, [0])
    for i in range(n):
        if t >= 3.0:
            acc = acc * 2.0
        else:
            acc = acc + 1.0
    return acc
'''

# other opset (15), own domain, three variables leaving the If (one of them a plain copy), three loop-carried
S3_SRC = _HDR15 + '''
def s3(x: FLOAT[4], n: INT64) -> FLOAT[4]:
    if op.ReduceMax(x) > 1.0:
        p = x + 1.0
        q = x * 2.0
        r = x - 3.0
    else:
        p = x
        q = x + x
        r = x * x
    acc = p
    run = q
    tot = r
    for i in range(n):
        acc = acc + run
        run = run * tot
        tot = tot + 1.0
    return acc + run + tot
'''

# script-time constants of four kinds, one function per kind so that a divergence names the kind
G_SRC = _HDR18 + '''
import onnx
K = 3.0
ARR = np.array([1.0, 2.0], dtype=np.float32)
TP = onnx.numpy_helper.from_array(np.array([5.0, 6.0], dtype=np.float32), "tp")
LST = [0]

def g_rebind(x: FLOAT[2]) -> FLOAT[2]:
    return x * K

def g_ndarray(x: FLOAT[2]) -> FLOAT[2]:
    return op.Add(x, ARR)

def g_tensorproto(x: FLOAT[2]) -> FLOAT[2]:
    return x + op.Constant(value=TP)

def g_list(x: FLOAT[2]) -> FLOAT:
    return op.Unsqueeze(x, LST)

# numpy constants that are read-only when the decorator runs but whose data can still change afterwards
_BASE = np.array([7.0, 8.0], dtype=np.float32)
ROV = _BASE.view()
ROV.flags.writeable = False
_BASE1 = np.array([9.0], dtype=np.float32)
BC = np.broadcast_to(_BASE1, (2,))
FRZ = np.array([3.0, 4.0], dtype=np.float32)
FRZ.setflags(write=False)
_BUF = bytearray(np.array([11.0, 12.0], dtype=np.float32).tobytes())
FB = np.frombuffer(_BUF, dtype=np.float32)
FB.flags.writeable = False
ARR0 = np.array(2.5, dtype=np.float32)
ARRI = np.array([1, 0], dtype=np.int64)

def g_roview(x: FLOAT[2]) -> FLOAT[2]:
    return op.Add(x, ROV)

def g_bcast(x: FLOAT[2]) -> FLOAT[2]:
    return op.Mul(x, BC)

def g_frozen(x: FLOAT[2]) -> FLOAT[2]:
    return op.Sub(x, FRZ)

def g_frombuffer(x: FLOAT[2]) -> FLOAT[2]:
    return op.Add(x, FB)

def g_scalar0d(x: FLOAT[2]) -> FLOAT[2]:
    return op.Mul(x, ARR0)

def g_intarray(x: FLOAT[2]) -> FLOAT[2]:
    return op.Gather(x, ARRI)
'''
G_KINDS = ["rebind", "ndarray", "tensorproto", "list", "roview", "bcast", "frozen", "frombuffer", "scalar0d", "intarray"]

P_SRC = _HDR18 + '''
def persist(x: FLOAT[4]) -> FLOAT[4]:
    if op.ReduceSum(x) > 0.0:
        y = x + 1.0
    else:
        y = x - 1.0
    return op.Relu(y)
'''


def family_sources(sizes):
    """One script per subset of NAMES (of the given sizes): exactly these variables leave an If and are
    carried by a for loop, so the converter iterates a set made of exactly these names."""
    out = {}
    for k in sizes:
        for sub in itertools.combinations(NAMES, k):
            then = "".join(f"        {v} = x + {i + 1}.0\n" for i, v in enumerate(sub))
            els = "".join(f"        {v} = x - {i + 1}.0\n" for i, v in enumerate(sub))
            body = "".join(f"        {v} = {v} + {sub[(i + 1) % k]}\n" for i, v in enumerate(sub))
            ret = " + ".join(sub)
            name = "fam_" + "_".join(sub)
            out[name] = (_HDR18 + f"\ndef {name}(x: FLOAT[4], n: INT64) -> FLOAT[4]:\n"
                         f"    if op.ReduceSum(x) > 0.0:\n{then}    else:\n{els}"
                         f"    for i in range(n):\n{body}    return {ret}\n")
    return out


def _fresh_module(modname, src):
    """exec `src` in a fresh module object registered under a fixed name (so nothing in the output can
    depend on how many times the event ran)."""
    fname = f"<c14:{modname}>"
    linecache.cache[fname] = (len(src), None, src.splitlines(True), fname)
    mod = types.ModuleType(modname)
    mod.__file__ = fname
    sys.modules[modname] = mod
    exec(compile(src, fname, "exec"), mod.__dict__)
    return mod


# ---------------------------------------------------------------------------------------------------------
# shared objects (the things whose history the property is about)
# ---------------------------------------------------------------------------------------------------------

DEC = onnxscript.script(default_opset=_op18)                       # one decorator for S1, S2, persist, g_*
from onnxscript import opset11 as _op11  # noqa: E402
DEC11 = onnxscript.script(default_opset=_op11)                     # one decorator for the opset-11 script
DEC3 = onnxscript.script(_values.Opset("c14.dom", 1))              # one decorator for S3 (own domain)
FOLD = _constant_folding.FoldConstantsPass(shape_inference=True, input_size_limit=1024,
                                           output_size_limit=1024 * 1024)
CONVPASS = onnxscript.version_converter.ConvertVersionPass(target_version=21)


class MulMulConst(_pattern.RewriteRuleClassBase):
    """Mul(Mul(x, c1), c2) -> Mul(x, c1*c2), written in the style of the rules in rules/common: the check
    stashes the folded constant on self, the rewrite reads it.  A NaN c2 makes the check raise *after*
    stashing; c2 == 0 makes it fail through MatchFailureError after stashing."""

    def pattern(self, op, x, c1, c2):
        return op.Mul(op.Mul(x, c1), c2)

    def check(self, context, x, c1, c2):
        result = MatchResult()
        v1 = c1.const_value
        v2 = c2.const_value
        if v1 is None or v2 is None:
            return result.fail("not constant")
        self._prod = (v1.numpy() * v2.numpy()).astype(np.float32)
        self._tag = f"{context.output_values[0].name}/prod"
        if np.any(np.isnan(v2.numpy())):
            raise ValueError("c14: check raises after stashing")
        if np.all(v2.numpy() == 0):
            raise MatchFailureError("c14: zero factor")
        return result

    def rewrite(self, op, x, c1, c2):
        return op.Mul(x, op.initializer(ir.tensor(self._prod, name=self._tag)))


MULMUL_RULE = MulMulConst.rule()
from onnxscript.rewriter.rules.common import _basic_rules, _fuse_pad_into_conv, _materialize_reshape_shape  # noqa: E402

RULESET = _pattern.RewriteRuleSet([
    MULMUL_RULE,
    _basic_rules.flatten_to_reshape_rule,
    _basic_rules.reshape_reshape_rule,
    _materialize_reshape_shape.materialize_reshape_shape_rule,
])


class RaisingEvaluator(_evaluator.BaseEvaluator):
    def __init__(self):
        super().__init__()
        self.calls = 0

    def _eval(self, schema, inputs, attributes, closure):
        self.calls += 1
        if self.calls % 2 == 0 or schema.name != "ReduceSum":
            raise RuntimeError("c14: evaluator raises")
        return _evaluator.ort_evaluator._eval(schema, inputs, attributes, closure)


RAISER = RaisingEvaluator()

_pmod = _fresh_module("c14_persist", P_SRC)
F_PERSIST = DEC(_pmod.persist)
_gmod = _fresh_module("c14_globals", G_SRC)
F_G = {k: DEC(getattr(_gmod, "g_" + k)) for k in G_KINDS}


# ---------------------------------------------------------------------------------------------------------
# model builders (onnx.helper only)
# ---------------------------------------------------------------------------------------------------------

def _i64(name, vals):
    return numpy_helper.from_array(np.array(vals, dtype=np.int64), name)


def _f32(name, vals, shape=None):
    a = np.array(vals, dtype=np.float32)
    if shape is not None:
        a = a.reshape(shape)
    return numpy_helper.from_array(a, name)


def _model(nodes, inputs, outputs, inits=(), opset=18, value_info=(), name="g"):
    g = helper.make_graph(list(nodes), name, list(inputs), list(outputs), initializer=list(inits),
                          value_info=list(value_info))
    return helper.make_model(g, opset_imports=[helper.make_opsetid("", opset)], ir_version=10,
                             producer_name="c14")


def _vi(name, shape, t=TensorProto.FLOAT):
    return helper.make_tensor_value_info(name, t, shape)


def m_reshape2(variant=0):
    """Reshape(Reshape(x)) then Flatten: fires ReshapeReshape and Flatten2Reshape (both stash)."""
    s2 = [[4, 6], [0, 3], [8, -1]][variant]
    xs = [[2, 3, 4], [2, 3, 4], [2, 4, 3]][variant]
    nodes = [helper.make_node("Reshape", ["x", "s1"], ["r1"], name="rs1"),
             helper.make_node("Reshape", ["r1", "s2"], ["r2"], name="rs2"),
             helper.make_node("Relu", ["r2"], ["a"], name="act"),
             helper.make_node("Flatten", ["a"], ["f"], name="flat", axis=1),
             helper.make_node("Abs", ["f"], ["y"], name="abs")]
    return _model(nodes, [_vi("x", xs)], [_vi("y", None)],
                  [_i64("s1", [6, 4]), _i64("s2", s2)])


def m_reshape_allowzero():
    """Reshape<allowzero=1>(Reshape(x)) on a tensor with a size-0 dim whose fused target shape keeps a literal 0:
    the ReshapeReshape rule takes its 'keep allowzero' branch (another per-match stash field)."""
    nodes = [helper.make_node("Reshape", ["x", "s1"], ["r1"], name="rs1", allowzero=1),
             helper.make_node("Reshape", ["r1", "s2"], ["r2"], name="rs2", allowzero=1),
             helper.make_node("Abs", ["r2"], ["y"], name="abs")]
    return _model(nodes, [_vi("x", [3, 0, 8])], [_vi("y", [3, 0])], [_i64("s1", [24, 0]), _i64("s2", [3, 0])])


def m_foldops(opset):
    """Constant sub-expressions over ops whose reference implementation depends on the opset version (axes as
    attribute up to opset 12 / as input from 13; Reduce* 18; Clip 6/11): folding the same op at two opset versions in one
    process exposes any per-process cache that forgets the version."""
    c = _f32("c", [[1.0, -2.0, 3.0], [4.0, 5.0, -6.0]])
    inits = [c]
    nodes = []
    if opset >= 13:
        inits += [_i64("ax0", [0]), _i64("ax1", [1])]
        nodes += [helper.make_node("Unsqueeze", ["c", "ax0"], ["u"], name="unsq"),
                  helper.make_node("Squeeze", ["u", "ax0"], ["sq"], name="sqz"),
                  helper.make_node("ReduceSum", ["c", "ax1"], ["rs"], name="rsum", keepdims=0)]
    else:
        nodes += [helper.make_node("Unsqueeze", ["c"], ["u"], name="unsq", axes=[0]),
                  helper.make_node("Squeeze", ["u"], ["sq"], name="sqz", axes=[0]),
                  helper.make_node("ReduceSum", ["c"], ["rs"], name="rsum", axes=[1], keepdims=0)]
    if opset >= 18:
        nodes += [helper.make_node("ReduceMax", ["c", "ax1"], ["rm"], name="rmax", keepdims=0)]
    else:
        nodes += [helper.make_node("ReduceMax", ["c"], ["rm"], name="rmax", axes=[1], keepdims=0)]
    inits += [_f32("lo", -1.0), _f32("hi", 2.0)]
    nodes += [helper.make_node("Clip", ["c", "lo", "hi"], ["cl"], name="clip"),
              helper.make_node("Add", ["x", "sq"], ["a"], name="add"),
              helper.make_node("Mul", ["a", "cl"], ["m"], name="mul"),
              helper.make_node("Add", ["rs", "rm"], ["r"], name="add2")]
    return _model(nodes, [_vi("x", [2, 3])], [_vi("m", [2, 3]), _vi("r", [2]), _vi("u", [1, 2, 3])], inits, opset=opset)


def m_padconv(variant=0):
    pads = [[0, 0, 1, 1, 0, 0, 1, 1], [0, 0, 2, 0, 0, 0, 0, 2]][variant]
    nodes = [helper.make_node("Pad", ["x", "pads"], ["xp"], name="pad"),
             helper.make_node("Conv", ["xp", "w"], ["y"], name="conv", kernel_shape=[3, 3])]
    w = _f32("w", np.arange(4 * 3 * 3 * 3) % 5 - 2, (4, 3, 3, 3))
    return _model(nodes, [_vi("x", [1, 3, 8, 8])], [_vi("y", None)], [_i64("pads", pads), w])


def m_matreshape(variant=0):
    """Reshape whose shape input is computed but whose output shape is known: MaterializeReshapeShape."""
    tail = [[3, 4], [2, 6]][variant]
    nodes = [helper.make_node("Shape", ["x"], ["b"], name="shp", start=0, end=1),
             helper.make_node("Concat", ["b", "tail"], ["sh"], name="cat", axis=0),
             helper.make_node("Reshape", ["x", "sh"], ["y0"], name="rs"),
             helper.make_node("Neg", ["y0"], ["y"], name="neg")]
    return _model(nodes, [_vi("x", ["B", 12])], [_vi("y", ["B"] + tail)], [_i64("tail", tail)],
                  value_info=[_vi("y0", ["B"] + tail)])


def m_nearmiss():
    """Every stashing rule meets a match whose check fails, some before and some after the stash."""
    nodes = [
        # ReshapeReshape: shape is not a constant -> fails before stashing
        helper.make_node("Reshape", ["x", "s1"], ["a1"], name="a_rs1"),
        helper.make_node("Reshape", ["a1", "dyn"], ["a2"], name="a_rs2"),
        # ReshapeReshape: 0 and -1 together -> fails after stashing _new_shape/_allowzero
        helper.make_node("Reshape", ["x", "s1"], ["b1"], name="b_rs1"),
        helper.make_node("Reshape", ["b1", "s0m1"], ["b2"], name="b_rs2"),
        # Flatten of an unknown-shape value -> two -1 -> fails after stashing
        helper.make_node("Flatten", ["u"], ["c1"], name="c_flat", axis=2),
        # Conv(Pad) with padding on the channel dimension -> fails, resets _pads_list to None
        helper.make_node("Pad", ["img", "badpads"], ["d1"], name="d_pad"),
        helper.make_node("Conv", ["d1", "w"], ["d2"], name="d_conv", kernel_shape=[3, 3]),
        # MaterializeReshapeShape with two symbolic dims -> fails before stashing
        helper.make_node("Reshape", ["v", "dyn"], ["e1"], name="e_rs"),
    ]
    w = _f32("w", np.arange(4 * 4 * 3 * 3) % 3 - 1, (4, 4, 3, 3))
    return _model(
        nodes,
        [_vi("x", [2, 3, 4]), _vi("dyn", [2], TensorProto.INT64), _vi("u", None), _vi("img", [1, 3, 8, 8]),
         _vi("v", ["M", "N"])],
        [_vi("a2", None), _vi("b2", None), _vi("c1", None), _vi("d2", None), _vi("e1", ["P", "Q"])],
        [_i64("s1", [6, 4]), _i64("s0m1", [0, -1]), _i64("badpads", [0, 1, 1, 1, 0, 0, 1, 1]), w])


def m_mixed():
    """One model: a passing match, then a failing one (fails before stashing), then another passing one with
    different values, for ReshapeReshape and Flatten2Reshape; a stale stash would leak between them."""
    nodes = [
        helper.make_node("Reshape", ["x", "s1"], ["a1"], name="a_rs1"),
        helper.make_node("Reshape", ["a1", "sa"], ["a2"], name="a_rs2"),
        helper.make_node("Reshape", ["x", "s1"], ["b1"], name="b_rs1"),
        helper.make_node("Reshape", ["b1", "dyn"], ["b2"], name="b_rs2"),
        helper.make_node("Reshape", ["x", "s1"], ["c1"], name="c_rs1"),
        helper.make_node("Reshape", ["c1", "sc"], ["c2"], name="c_rs2", allowzero=1),
        helper.make_node("Flatten", ["x"], ["d1"], name="d_flat", axis=2),
        helper.make_node("Flatten", ["u"], ["e1"], name="e_flat", axis=2),
        helper.make_node("Flatten", ["x2"], ["f1"], name="f_flat", axis=0),
    ]
    return _model(
        nodes,
        [_vi("x", [2, 3, 4]), _vi("dyn", [2], TensorProto.INT64), _vi("u", None), _vi("x2", [3, 2, 2])],
        [_vi(n, None) for n in ("a2", "b2", "c2", "d1", "e1", "f1")],
        [_i64("s1", [6, 4]), _i64("sa", [3, 8]), _i64("sc", [12, 2, 1])])


def m_mulmul(c1, c2, flatten=True):
    nodes = [helper.make_node("Mul", ["x", "c1"], ["m1"], name="mul1"),
             helper.make_node("Mul", ["m1", "c2"], ["m2"], name="mul2")]
    if flatten:
        nodes.append(helper.make_node("Flatten", ["m2"], ["y"], name="flat", axis=1))
    else:
        nodes.append(helper.make_node("Neg", ["m2"], ["y"], name="neg"))
    return _model(nodes, [_vi("x", [2, 3, 2])], [_vi("y", None)], [_f32("c1", [c1]), _f32("c2", [c2])])


def m_fold(variant):
    if variant == 2:   # nothing to fold: the pass must report "not modified" whatever it did before
        nodes = [helper.make_node("Add", ["x", "x"], ["t"], name="dbl"),
                 helper.make_node("Relu", ["t"], ["y"], name="act")]
        return _model(nodes, [_vi("x", [2, 2])], [_vi("y", [2, 2])])
    if variant == 0:   # pure constants + shape of a static input
        nodes = [helper.make_node("Add", ["k1", "k2"], ["k3"], name="add"),
                 helper.make_node("Shape", ["x"], ["sx"], name="shape"),
                 helper.make_node("Cast", ["sx"], ["sf"], name="cast", to=TensorProto.FLOAT),
                 helper.make_node("Mul", ["k3", "sf"], ["k4"], name="mul"),
                 helper.make_node("Add", ["x", "k4"], ["y"], name="out")]
        return _model(nodes, [_vi("x", [2, 2])], [_vi("y", None)], [_f32("k1", [1, 2]), _f32("k2", [3, 4])])
    # symbolic dims: populates the symbolic value map of the pass
    nodes = [helper.make_node("Shape", ["x"], ["sx"], name="shape"),
             helper.make_node("Gather", ["sx", "i0"], ["d0"], name="gather", axis=0),
             helper.make_node("Concat", ["d0", "m1"], ["sh"], name="cat", axis=0),
             helper.make_node("Reshape", ["x", "sh"], ["r"], name="rs"),
             helper.make_node("Identity", ["r"], ["r2"], name="idn"),
             helper.make_node("Dropout", ["r2"], ["y"], name="drop")]
    return _model(nodes, [_vi("x", ["B", 3, 4])], [_vi("y", None)], [_i64("i0", [0]), _i64("m1", [-1])])


def m_convert(mode="bilinear"):
    nodes = [helper.make_node("GridSample", ["x", "grid"], ["g"], name="gs", mode=mode),
             helper.make_node("Relu", ["g"], ["y"], name="act")]
    return _model(nodes, [_vi("x", [1, 1, 4, 4]), _vi("grid", [1, 2, 2, 2])], [_vi("y", [1, 1, 2, 2])], opset=18)


def m_rms(dtype):
    """x -> [Cast f32] -> Pow/ReduceMean/Add/Sqrt/Reciprocal/Mul -> [Cast back] -> Mul(scale)."""
    t = {"f16": TensorProto.FLOAT16, "f64": TensorProto.DOUBLE}[dtype]
    nodes = []
    src = "x"
    if dtype == "f16":
        nodes.append(helper.make_node("Cast", ["x"], ["xc"], name="cast_in", to=TensorProto.FLOAT))
        src = "xc"
    ct = TensorProto.FLOAT if dtype == "f16" else TensorProto.DOUBLE
    npt = np.float32 if dtype == "f16" else np.float64
    nodes += [helper.make_node("Pow", [src, "two"], ["sq"], name="pow"),
              helper.make_node("ReduceMean", ["sq", "axes"], ["ms"], name="mean", keepdims=1,
                               noop_with_empty_axes=0),
              helper.make_node("Add", ["ms", "eps"], ["mse"], name="add"),
              helper.make_node("Sqrt", ["mse"], ["rms"], name="sqrt"),
              helper.make_node("Reciprocal", ["rms"], ["rr"], name="recip"),
              helper.make_node("Mul", [src, "rr"], ["nrm"], name="mul")]
    last = "nrm"
    if dtype == "f16":
        nodes.append(helper.make_node("Cast", ["nrm"], ["nc"], name="cast_out", to=t))
        last = "nc"
    nodes.append(helper.make_node("Mul", [last, "scale"], ["y"], name="scale_mul"))
    inits = [numpy_helper.from_array(np.array(2.0, dtype=npt), "two"), _i64("axes", [-1]),
             numpy_helper.from_array(np.array(1e-5, dtype=npt), "eps"),
             numpy_helper.from_array(np.ones(4, dtype=np.float16 if dtype == "f16" else np.float64), "scale")]
    return _model(nodes, [_vi("x", [2, 4], t)], [_vi("y", [2, 4], t)], inits, opset=23)


# ---------------------------------------------------------------------------------------------------------
# events
# ---------------------------------------------------------------------------------------------------------

class Within(Exception):
    pass


_within = []  # violations an event detects by itself (repeat / alternation), independent of goldens


def _note(kind, what):
    _within.append({"kind": kind, "what": what})


def _ser(m):
    return m.SerializeToString(deterministic=True) if isinstance(m, (onnx.ModelProto, onnx.FunctionProto)) \
        else ir.serde.serialize_model(m).SerializeToString(deterministic=True)


def _ser_plain(m):
    # plain SerializeToString: what a user gets; map fields are not involved in these protos
    return m.SerializeToString()


def _fn_digest(fn):
    """Structural hash of an OnnxFunction's IR without going through to_model_proto/to_function_proto of
    the OnnxFunction object: names, op types, attribute reprs, graph inputs/outputs, recursively."""
    h = hashlib.sha256()

    def graph(g):
        h.update(b"G")
        for v in g.inputs:
            h.update(repr((v.name, str(v.type), str(v.shape))).encode())
        for n in g:
            h.update(repr((n.domain, n.op_type, n.overload, n.name, [None if i is None else i.name for i in n.inputs],
                           [o.name for o in n.outputs])).encode())
            for k in sorted(n.attributes):
                a = n.attributes[k]
                h.update(k.encode())
                if a.type == ir.AttributeType.GRAPH:
                    graph(a.value)
                elif a.type == ir.AttributeType.TENSOR:
                    h.update(a.value.numpy().tobytes())
                else:
                    h.update(repr(a.value).encode() if not a.is_ref() else b"ref")
        for v in g.outputs:
            h.update(repr((v.name, str(v.type), str(v.shape))).encode())
        for k in sorted(g.initializers):
            h.update(k.encode())

    f = fn.function_ir
    h.update(repr((f.name, f.domain, sorted(f.graph.opset_imports.items()), sorted(f.meta.keys()))).encode())
    graph(f.graph)
    return h.hexdigest()


def _translate(modname, src, fname, dec):
    mod = _fresh_module(modname, src)
    fn = dec(getattr(mod, fname))
    return {"model": _ser_plain(fn.to_model_proto()), "function": _ser_plain(fn.to_function_proto())}


def ev_tr_s1():
    return _translate("c14_s1", S1_SRC, "s1", DEC)


def ev_tr_s2():
    return _translate("c14_s2", S2_SRC, "s2", DEC)


def ev_tr_s3():
    return _translate("c14_s3", S3_SRC, "s3", DEC3)


_RESCRIPT = {}


def ev_tr_rescript():
    """The SAME Python function object (created once per process) is handed to script() again at every call: scripting
    must not leave anything behind on the function, its source or its AST (seeded C11f cached and mutated the AST)."""
    if "f" not in _RESCRIPT:
        src = _HDR18 + (
            "def rs(x: FLOAT[4, 5], n: INT64) -> FLOAT[...]:\n"
            "    a = x[2, 1:3]\n"
            "    b = x[::-1, 3]\n"
            "    acc = a[0] + b[1]\n"
            "    for i in range(n):\n"
            "        acc = acc + x[1, 0] * 2.0\n"
            "    return acc\n")
        _RESCRIPT["f"] = getattr(_fresh_module("c14_rescript", src), "rs")
    fn = DEC(_RESCRIPT["f"])
    return {"model": _ser_plain(fn.to_model_proto()), "function": _ser_plain(fn.to_function_proto())}


def ev_tr_x11():
    return _translate("c14_sx11", SX11_SRC, "sx11", DEC11)


def ev_tr_x18():
    return _translate("c14_sx18", SX18_SRC, "sx18", DEC)


def _optimize(m):
    return {"model": _ser_plain(onnxscript.optimizer.optimize(m))}


def ev_opt_reshape2():
    return _optimize(m_reshape2(0))


def ev_opt_reshape_az():
    return _optimize(m_reshape_allowzero())


def ev_opt_fold_o11():
    return _optimize(m_foldops(11))


def ev_opt_fold_o18():
    return _optimize(m_foldops(18))


def ev_opt_padconv():
    out = _optimize(m_padconv(0))
    out["model_b"] = _ser_plain(onnxscript.optimizer.optimize(m_padconv(1)))
    return out


def ev_opt_matreshape():
    out = _optimize(m_matreshape(0))
    out["model_b"] = _ser_plain(onnxscript.optimizer.optimize(m_matreshape(1)))
    return out


def ev_opt_nearmiss():
    return _optimize(m_nearmiss())


def ev_opt_mixed():
    return _optimize(m_mixed())


def ev_rw_checkraises():
    """the shared RULESET meets a model on which a check raises after stashing"""
    return {"model": _ser_plain(onnxscript.rewriter.rewrite(m_mulmul(2.0, float("nan")), RULESET))}


def ev_rw_patternraises():
    def bad_pattern(op, x, y):
        t = op.Relu(x + y)
        raise RuntimeError(f"c14: pattern function raises after building {type(t).__name__}")

    def repl(op, x, y):
        return op.Add(x, y)

    _pattern.RewriteRule(bad_pattern, repl)
    return {}


def _newrule():
    """a NEW rule object whose pattern uses the operator overloads (they go through the global builder)"""
    def pat(op, x, y):
        return op.Relu((x + y) * 2.0)

    def repl(op, x, y):
        s = op.Add(x, y)
        return op.Relu(op.Add(s, s))

    rule = _pattern.RewriteRule(pat, repl)
    nodes = [helper.make_node("Add", ["x", "y"], ["s"], name="add"),
             helper.make_node("Mul", ["s", "two"], ["m"], name="mul"),
             helper.make_node("Relu", ["m"], ["z"], name="relu")]
    m = _model(nodes, [_vi("x", [2]), _vi("y", [2])], [_vi("z", [2])], [_f32("two", 2.0, ())])
    return _ser_plain(onnxscript.rewriter.rewrite(m, [rule]))


def ev_rw_alt():
    """the same RewriteRuleSet on two models alternately (A B soft-fail A B); then a rule built afresh"""
    outs = {"newrule": _newrule()}
    a1 = _ser_plain(onnxscript.rewriter.rewrite(m_mulmul(2.0, 3.0, True), RULESET))
    b1 = _ser_plain(onnxscript.rewriter.rewrite(m_mulmul(5.0, 7.0, False), RULESET))
    z = _ser_plain(onnxscript.rewriter.rewrite(m_mulmul(11.0, 0.0, True), RULESET))
    a2 = _ser_plain(onnxscript.rewriter.rewrite(m_mulmul(2.0, 3.0, True), RULESET))
    b2 = _ser_plain(onnxscript.rewriter.rewrite(m_mulmul(5.0, 7.0, False), RULESET))
    if a1 != a2:
        _note("history", "rewrite(A) differs between first and second application inside rw_alt")
    if b1 != b2:
        _note("history", "rewrite(B) differs between first and second application inside rw_alt")
    outs.update(A=a1, B=b1, Z=z, A2=a2, B2=b2)
    return outs


def ev_rw_rms():
    rs = _rms_normalization.rms_normalization_ruleset
    outs = {}
    for i, d in enumerate(["f16", "f64", "f16"]):
        outs[f"{i}_{d}"] = _ser_plain(onnxscript.rewriter.rewrite(m_rms(d), rs))
    if outs["0_f16"] != outs["2_f16"]:
        _note("history", "rms fusion of the same model differs inside rw_rms")
    return outs


def ev_fold_reuse():
    outs = {}
    for i, v in enumerate([2, 0, 1, 0, 2]):
        m = ir.serde.deserialize_model(m_fold(v))
        res = FOLD(m)
        outs[f"{i}_v{v}"] = _ser_plain(ir.serde.serialize_model(res.model))
        outs[f"{i}_v{v}_modified"] = repr(bool(res.modified)).encode()
    # the public function on a proto (in place)
    p = m_fold(1)
    onnxscript.optimizer.fold_constants(p, onnx_shape_inference=True)
    outs["fn_v1"] = _ser_plain(p)
    return outs


def m_seqops(opset):
    """Ops whose partial evaluator exists only from some opset on (Dropout 12, ConcatFromSequence 13, SplitToSequence 18):
    a long-lived pass object that remembers which evaluators apply treats an opset-17 model like the opset-18 model it
    saw before (seeded C14h)."""
    if opset >= 12:
        drop = helper.make_node("Dropout", ["e"], ["d"], name="drop")
    else:
        drop = helper.make_node("Dropout", ["e"], ["d"], name="drop", ratio=0.25)
    nodes = [helper.make_node("SplitToSequence", ["x", "one"], ["s"], name="split", axis=0),
             helper.make_node("SequenceAt", ["s", "one"], ["e"], name="at"),
             drop,
             helper.make_node("SequenceConstruct", ["d", "e"], ["q"], name="mk"),
             helper.make_node("ConcatFromSequence", ["q"], ["c"], name="cat", axis=0),
             helper.make_node("Abs", ["c"], ["y"], name="abs")]
    return _model(nodes, [_vi("x", [3, 2])], [_vi("y", [2, 2])], [_i64("one", 1)], opset=opset)


def _ev_pass_seq(opset):
    m = ir.serde.deserialize_model(m_seqops(opset))
    res = FOLD(m)
    return {"model": _ser_plain(ir.serde.serialize_model(res.model)), "modified": repr(bool(res.modified)).encode()}


def ev_pass_seq_o11():
    return _ev_pass_seq(11)


def ev_pass_seq_o17():
    return _ev_pass_seq(17)


def ev_pass_seq_o18():
    return _ev_pass_seq(18)


def ev_convert():
    outs = {}
    p = m_convert("bilinear")
    onnxscript.version_converter.convert_version(p, target_version=21)
    outs["fn_proto"] = _ser_plain(p)
    m = ir.serde.deserialize_model(m_convert("bicubic"))
    CONVPASS(m)
    outs["pass_ir"] = _ser_plain(ir.serde.serialize_model(m))
    try:
        d = m_convert("bilinear")
        onnxscript.version_converter.convert_version(d, target_version=17)
        outs["down"] = _ser_plain(d)
    except Exception as e:  # a refusal is an outcome
        outs["down"] = ("raise:" + type(e).__name__).encode()
    return outs


def m_plain_unnamed():
    """Nothing for any pass to do - but nodes without names / with one shared name, which a name-fixing step triggered
    by left-over 'modified' state of a long-lived pass object would alter."""
    nodes = [helper.make_node("Relu", ["x"], ["t"]), helper.make_node("Sigmoid", ["t"], ["u"]),
             helper.make_node("Add", ["t", "u"], ["v"], name="dup"), helper.make_node("Mul", ["v", "u"], ["y"], name="dup")]
    return _model(nodes, [_vi("x", [2, 3])], [_vi("y", [2, 3])], opset=18)


REWRITEPASS = onnxscript.rewriter.RewritePass(onnxscript.rewriter._DEFAULT_REWRITE_RULES)


def ev_pass_plain():
    """the long-lived pass objects (version converter, folder, rewrite pass) on a model none of them needs to change"""
    outs = {}
    for tag, ps in (("convert", CONVPASS), ("fold", FOLD), ("rewrite", REWRITEPASS)):
        m = ir.serde.deserialize_model(m_plain_unnamed())
        res = ps(m)
        outs[tag] = _ser_plain(ir.serde.serialize_model(res.model))
        outs[tag + "_modified"] = repr(bool(res.modified)).encode()
    return outs


_X4 = np.array([1.0, -2.0, 3.0, 0.5], dtype=np.float32)
_X2 = np.array([1.0, 2.0], dtype=np.float32)


def _npbytes(a):
    a = np.asarray(a)
    return repr((str(a.dtype), a.shape)).encode() + a.tobytes()


def ev_eager_raise():
    with _evaluator.default_as(RAISER):
        F_PERSIST(_X4)
    return {}


def ev_proto_repeat():
    """to_model_proto()^3 / to_function_proto()^3 on a freshly decorated function: identical, IR unchanged"""
    mod = _fresh_module("c14_s1", S1_SRC)
    fn = DEC(mod.s1)
    d0 = _fn_digest(fn)
    ms = [_ser_plain(fn.to_model_proto()) for _ in range(3)]
    d1 = _fn_digest(fn)
    fs = [_ser_plain(fn.to_function_proto()) for _ in range(3)]
    d2 = _fn_digest(fn)
    if len(set(ms)) != 1:
        _note("repeat", "to_model_proto()^3 not identical")
    if len(set(fs)) != 1:
        _note("repeat", "to_function_proto()^3 not identical")
    if d0 != d1:
        _note("repeat", "to_model_proto() modified function_ir")
    if d1 != d2:
        _note("repeat", "to_function_proto() modified function_ir")
    # a proto handed out earlier must not be aliased by a later one
    p1 = fn.to_model_proto()
    p1.graph.node[0].name = "c14_scribble"
    del p1.graph.output[:]
    p2 = _ser_plain(fn.to_model_proto())
    if p2 != ms[0]:
        _note("repeat", "editing a returned ModelProto changed the next to_model_proto()")
    if _fn_digest(fn) != d0:
        _note("repeat", "editing a returned ModelProto changed function_ir")
    return {"model": ms[0], "function": fs[0]}


def ev_use_persist():
    """the function decorated before any history: protos, then an eager call"""
    d0 = _fn_digest(F_PERSIST)
    a = _ser_plain(F_PERSIST.to_model_proto())
    b = _ser_plain(F_PERSIST.to_model_proto())
    if a != b:
        _note("repeat", "persist.to_model_proto()^2 not identical")
    if _fn_digest(F_PERSIST) != d0:
        _note("repeat", "persist.to_model_proto() modified function_ir")
    outs = {"model": a, "function": _ser_plain(F_PERSIST.to_function_proto()), "ir": d0.encode(),
            "eager": _npbytes(F_PERSIST(_X4))}
    # the returned protos belong to the caller: editing them must not reach the function or later calls
    p = F_PERSIST.to_model_proto()
    p.graph.node[0].name = "c14_scribble"
    del p.graph.output[:]
    fp = F_PERSIST.to_function_proto()
    del fp.node[:]
    return outs


def ev_glob_mut():
    """mutate every global the g_* scripts reference: rebind, and mutate in place"""
    _gmod.K = 4.0
    _gmod.ARR[0] = 100.0
    _gmod.TP.raw_data = np.array([50.0, 60.0], dtype=np.float32).tobytes()
    _gmod.LST[0] = 1
    # read-only constants: change the data through the base array / the buffer / after thawing
    _gmod._BASE[0] = 700.0
    _gmod._BASE1[0] = 900.0
    _gmod.FRZ.setflags(write=True)
    _gmod.FRZ[0] = 300.0
    _gmod._BUF[0:4] = np.array([1100.0], dtype=np.float32).tobytes()
    _gmod.ARR0[...] = 250.0
    _gmod.ARRI[0] = 0
    return {}


def ev_use_g():
    """the functions whose script-time constants come from globals: protos, then eager calls"""
    outs = {}
    for k in G_KINDS:
        outs["proto/" + k] = _ser_plain(F_G[k].to_model_proto()) + b"|" + _ser_plain(F_G[k].to_function_proto())
    for k in G_KINDS:
        try:
            outs["eager/" + k] = _npbytes(F_G[k](_X2))
        except Exception as e:
            outs["eager/" + k] = ("raise:" + type(e).__name__).encode()
    return outs


EVENTS = {
    "tr_s1": ev_tr_s1, "tr_s2": ev_tr_s2, "tr_s3": ev_tr_s3, "tr_x11": ev_tr_x11, "tr_x18": ev_tr_x18, "tr_rescript": ev_tr_rescript,
    "opt_reshape2": ev_opt_reshape2, "opt_reshape_az": ev_opt_reshape_az, "opt_fold_o11": ev_opt_fold_o11, "opt_fold_o18": ev_opt_fold_o18, "opt_padconv": ev_opt_padconv, "opt_matreshape": ev_opt_matreshape,
    "opt_nearmiss": ev_opt_nearmiss, "opt_mixed": ev_opt_mixed,
    "rw_checkraises": ev_rw_checkraises, "rw_patternraises": ev_rw_patternraises, "rw_alt": ev_rw_alt,
    "rw_rms": ev_rw_rms, "fold_reuse": ev_fold_reuse, "pass_seq_o11": ev_pass_seq_o11, "pass_seq_o17": ev_pass_seq_o17,
    "pass_seq_o18": ev_pass_seq_o18, "convert": ev_convert, "pass_plain": ev_pass_plain,
    "eager_raise": ev_eager_raise, "use_persist": ev_use_persist, "proto_repeat": ev_proto_repeat,
    "glob_mut": ev_glob_mut, "use_g": ev_use_g,
}


assert list(EVENTS) == list(EVENT_NAMES), "event alphabet of c14.py and c14_events.py differ"


def run_event(name, want_bytes=False):
    del _within[:]
    try:
        outs = EVENTS[name]()
        status = "ok"
        err = None
    except Exception as e:  # the property allows refusal; the refusal itself is the (comparable) outcome
        outs = {}
        status = "raise:" + type(e).__name__
        err = str(e)[:300]
    res = {"ev": name, "status": status,
           "outs": {k: hashlib.sha256(v).hexdigest() for k, v in sorted(outs.items())},
           "within": list(_within)}
    if err is not None:
        res["err"] = err
    if want_bytes:
        res["bytes"] = {k: base64.b64encode(v).decode() for k, v in sorted(outs.items())}
    return res


# ---------------------------------------------------------------------------------------------------------
# canonical process state
# ---------------------------------------------------------------------------------------------------------

def _canon(v, depth=0):
    if v is None or isinstance(v, (bool, int, float, str, bytes)):
        return repr(v)
    if isinstance(v, np.ndarray):
        return f"nd({v.dtype},{v.shape},{v.tolist()!r})" if v.size <= 64 else f"nd({v.dtype},{v.shape})"
    if isinstance(v, np.generic):
        return f"np({v.dtype},{v!r})"
    if isinstance(v, ir.DataType):
        return f"DataType.{v.name}"
    if depth < 3:
        if isinstance(v, (list, tuple)):
            return "[" + ",".join(_canon(x, depth + 1) for x in v) + "]"
        if isinstance(v, dict):
            return "{" + ",".join(sorted(f"{_canon(k, depth + 1)}:{_canon(x, depth + 1)}" for k, x in v.items())) + "}"
        if isinstance(v, (set, frozenset)):
            return "{" + ",".join(sorted(_canon(x, depth + 1) for x in v)) + "}"
    return f"<{type(v).__name__}>"


_SKIP_FIELDS = {"_compiled_pattern", "_pattern_kwargs"}


def _rule_instance(rule):
    for f in (getattr(rule, "_condition_function", None),
              getattr(getattr(rule, "_replacement_pattern", None), "_function", None)):
        inst = getattr(f, "__self__", None)
        if inst is not None and not isinstance(inst, type):
            return inst
    return None


def _rules_in(obj, seen):
    if isinstance(obj, _rewrite_rule.RewriteRule):
        yield obj
    elif isinstance(obj, _rewrite_rule.RewriteRuleSet):
        for r in obj.rules:
            yield r
    elif isinstance(obj, (list, tuple)) and obj and all(isinstance(r, _rewrite_rule.RewriteRule) for r in obj):
        for r in obj:
            yield r


def canonical_state():
    """Sorted dump of the property-relevant process state (the BFS key).  No addresses, no counters of the
    harness itself."""
    st = {}
    # 1. every rule-class instance reachable from a module-level rule / rule set / rule list of
    #    onnxscript.rewriter(.rules.*) and of this module
    insts = {}
    mods = sorted(n for n in sys.modules if n.startswith("onnxscript.rewriter")) + [__name__]
    for mn in mods:
        mod = sys.modules.get(mn)
        if mod is None:
            continue
        for an in sorted(vars(mod)):
            try:
                rules = list(_rules_in(vars(mod)[an], None))
            except Exception:
                continue
            for i, r in enumerate(rules):
                inst = _rule_instance(r)
                if inst is None or id(inst) in insts:
                    continue
                insts[id(inst)] = (f"{mn}.{an}[{i}]", inst)
    for _id, (where, inst) in insts.items():
        fields = {k: _canon(v) for k, v in vars(inst).items() if k not in _SKIP_FIELDS}
        st["rule:" + where + ":" + type(inst).__name__] = fields
    st["n_rule_instances"] = len(insts)
    # 2. opset singletons
    st["opset_cache"] = sorted(f"{c.__name__}|{d}|{v}" for (c, d, v) in _values.Opset.cache)
    # 3. swapped globals
    st["pattern_builder_is_default"] = _pattern_ir._pattern_builder is _pattern_ir.onnxop
    _pb = vars(_pattern_ir._pattern_builder)
    st["pattern_builder"] = (type(_pattern_ir._pattern_builder).__name__, _pb.get("_nodes") is not None,
                             len(_pb.get("_nodes") or []))
    st["default_evaluator_is_ort"] = _evaluator.default() is _evaluator.ort_evaluator
    st["default_evaluator"] = type(_evaluator.default()).__name__
    st["merge_metadata"] = _canon(_rewrite_rule.merge_metadata)
    # 4. registries
    st["n_partial_evaluators"] = sum(len(v) if hasattr(v, "__len__") else 1
                                     for v in _constant_folding.registry.op_evaluators.values())
    from onnxscript.version_converter import _version_converter
    st["n_adapters"] = len(_version_converter.registry.op_adapters)
    st["torch_lib_loaded"] = "onnxscript.function_libs.torch_lib.registration" in sys.modules
    st["n_onnxscript_modules"] = sum(1 for n in sys.modules if n.startswith("onnxscript"))
    # 5. long-lived pass objects
    st["fold_pass"] = {
        "_counts": _canon(FOLD._counts), "_sizes": _canon(FOLD._sizes), "_modified": FOLD._modified,
        "_opset_imports": _canon(dict(FOLD._opset_imports)),
        "n_sym": len(getattr(FOLD._state, "symbolic_value_map", {}) or {}),
    }
    st["conv_pass"] = {k: _canon(v) for k, v in vars(CONVPASS).items()}
    st["default_rules_n"] = len(onnxscript.rewriter._DEFAULT_REWRITE_RULES)
    # 6. script-time constants' sources and the persistent functions
    st["globals2"] = {n: _canon(getattr(_gmod, n)) for n in ("ROV", "BC", "FRZ", "FB", "ARR0", "ARRI")}
    st["globals"] = {"K": _canon(_gmod.K), "ARR": _canon(_gmod.ARR), "LST": _canon(_gmod.LST),
                     "TP": hashlib.sha256(_gmod.TP.SerializeToString()).hexdigest()[:16]}
    st["persist_ir"] = _fn_digest(F_PERSIST)[:16]
    st["g_ir"] = {k: _fn_digest(F_G[k])[:16] for k in G_KINDS}
    st["raiser_parity"] = RAISER.calls % 2
    return st


def state_key():
    s = json.dumps(canonical_state(), sort_keys=True, default=repr)
    return hashlib.sha256(s.encode()).hexdigest()[:20], s


def state_components():
    """component name -> digest, so that the parent can say WHICH component an event changed"""
    st = canonical_state()
    return {k: hashlib.sha256(json.dumps(v, sort_keys=True, default=repr).encode()).hexdigest()[:10]
            for k, v in st.items()}


# ---------------------------------------------------------------------------------------------------------
# driver
# ---------------------------------------------------------------------------------------------------------

def _family(sizes):
    outs = {}
    for name, src in family_sources(sizes).items():
        mod = _fresh_module("c14_" + name, src)
        try:
            fn = DEC(getattr(mod, name))
            outs[name] = base64.b64encode(_ser_plain(fn.to_model_proto())).decode()
        except Exception as e:
            outs[name] = "raise:" + type(e).__name__
    return outs


def _expand(job):
    import onnxruntime  # noqa: F401  (imported before forking: every child would otherwise import it again)
    steps = []
    for ev in job["history"]:
        r = run_event(ev)
        r["key"] = state_key()[0]
        steps.append(r)
    root_key = state_key()[0]
    root_comp = state_components()
    children = {}
    for ev in job["events"]:
        rfd, wfd = os.pipe()
        pid = os.fork()
        if pid == 0:
            code = 0
            try:
                os.close(rfd)
                r = run_event(ev)
                r["key"] = state_key()[0]
                comp = state_components()
                r["changed"] = sorted(k for k in comp if comp[k] != root_comp.get(k))
                with os.fdopen(wfd, "w") as w:
                    w.write(json.dumps(r))
            except BaseException as e:  # noqa: BLE001
                try:
                    sys.stderr.write(f"c14 child {ev}: {e!r}\n")
                finally:
                    code = 3
            os._exit(code)
        os.close(wfd)
        data = ""
        timed_out = False
        deadline = time.time() + float(job.get("child_timeout", 240))
        with os.fdopen(rfd) as rd:
            while True:
                left = deadline - time.time()
                if left <= 0:
                    timed_out = True
                    break
                ready, _, _ = select.select([rd], [], [], left)
                if not ready:
                    timed_out = True
                    break
                chunk = os.read(rd.fileno(), 1 << 16)
                if not chunk:
                    break
                data += chunk.decode()
        if timed_out:
            try:
                os.kill(pid, 9)
            except OSError:
                pass
        _, st = os.waitpid(pid, 0)
        if timed_out:
            # the harness (fork) could not deliver: the caller re-executes this transition in a fresh process
            children[ev] = {"ev": ev, "status": "fork-timeout", "outs": {}, "within": [], "key": None, "changed": []}
        elif st != 0 or not data:
            children[ev] = {"ev": ev, "status": "crash", "wait": st, "outs": {}, "within": [], "key": None,
                            "changed": []}
        else:
            children[ev] = json.loads(data)
    inproc = None
    if job.get("verify"):
        # fork-fidelity cross-check: the parent itself (no fork) executes one event after all children are done
        inproc = run_event(job["verify"])
        inproc["key"] = state_key()[0]
    return {"steps": steps, "root_key": root_key, "children": children, "inproc": inproc}


def tree_fingerprint():
    """(size, mtime) of every loaded onnxscript source file: goldens and executions must see the same code"""
    h = hashlib.sha256()
    for name in sorted(sys.modules):
        if name == "onnxscript" or name.startswith("onnxscript."):
            f = getattr(sys.modules[name], "__file__", None)
            if f:
                try:
                    st = os.stat(f)
                    h.update(f"{f}|{st.st_size}|{st.st_mtime_ns}\n".encode())
                except OSError:
                    h.update(f"{f}|missing\n".encode())
    return h.hexdigest()[:16]


TREE = tree_fingerprint()  # taken once, right after import and before any event (events may import lazily)


def main():
    out_fd = os.dup(1)
    os.dup2(2, 1)  # anything printed by the code under test goes to stderr
    job = json.loads(sys.stdin.read())
    mode = job["mode"]
    if mode == "linear":
        steps = []
        k0 = state_key()[0]
        for ev in job["history"]:
            r = run_event(ev, want_bytes=bool(job.get("bytes")))
            r["key"] = state_key()[0]
            steps.append(r)
        res = {"steps": steps, "key0": k0}
        if job.get("dump_state"):
            res["state"] = canonical_state()
    elif mode == "expand":
        res = _expand(job)
    elif mode == "family":
        res = {"family": _family(job["sizes"])}
    else:
        raise SystemExit(f"unknown mode {mode}")
    res["hashseed"] = os.environ.get("PYTHONHASHSEED")
    res["tree"] = TREE
    res["onnxscript"] = os.path.dirname(onnxscript.__file__)
    with os.fdopen(out_fd, "w") as f:
        f.write(json.dumps(res, default=repr))


if __name__ == "__main__":
    main()
