"""C05 rule spaces, part 3: _fuse_pad_into_conv, _fuse_batchnorm, _remove_optional_bias (default set, in order)."""
from __future__ import annotations

import numpy as np

from vf.props import c05_spaces as S
from vf.props.c05_mb import fill
from vf.props.c05_spaces import Dim, MB, Skip, Space, arr


def _w(dt, shape, salt=1, scale=0.25):
    a = fill(dt if not dt.startswith("f") else "f32", shape, k=0, salt=salt)
    if dt.startswith("f"):
        return (a * scale).astype(S.npd(dt))
    return a.astype(S.npd(dt))


def _pos(dt, shape, salt=2):
    """strictly positive values (variances, scales)."""
    a = np.abs(fill("f32", shape, k=1, salt=salt)) * 0.5 + 0.5
    return a.astype(S.npd(dt))


# ---------------------------------------------------------------------------------------------------
# Conv(Pad(x)) -> Conv(x, pads += ...), ConvInteger(Pad(x)) -> ConvInteger
# ---------------------------------------------------------------------------------------------------
def _pc_dims(rule):
    integer = "integer" in rule["id"]
    d = [
        Dim("pads", ["sym1", "asym", "zero", "neg", "batch", "chan"]),
        Dim("cv", ["absent", "0", "1", "empty"] + ([] if integer else ["-0.0", "1e-9"])),
        Dim("axes", ["absent", "spatial", "neg-spatial"], ["absent", "spatial", "neg-spatial", "last-only", "all"]),
        Dim("rank", [4, 3, 5], cost=1),
    ]
    if integer:
        d += [Dim("xzp", ["absent", "0", "3"]), Dim("wzp", ["absent", "2"], cost=1), Dim("xdt", ["u8", "i8"], cost=1)]
    d += [
        Dim("mode", ["absent", "constant", "reflect", "edge"], cost=1),
        Dim("conv_pads", ["absent", "ones", "asym"], cost=1),
        Dim("auto_pad", ["absent", "NOTSET", "VALID", "SAME_UPPER"], cost=1),
        Dim("stride", [1, 2], cost=1), Dim("dilation", [1, 2], cost=1), Dim("group", [1, 2], cost=1),
    ]
    if not integer:
        d += [Dim("bias", ["no", "yes"], cost=1)]
    d += [S.d_ck(3), S.d_inter(1), S.D_DIMS, S.D_VI, S.d_opset(18, 13, 21, 23)]
    return d


def _pc_prune(p, rule):
    if p["axes"] != "absent" and p["opset"] < 18:
        return True
    if p["axes"] in ("spatial", "neg-spatial", "last-only") and p["pads"] in ("batch", "chan"):
        return True
    if p["ck"] in ("init_input@2", "input@2") and p["axes"] == "absent":
        return True
    if p["ck"] in ("init_input@1", "input@1") and p["cv"] in ("absent", "empty"):
        return True
    if p["auto_pad"] not in ("absent", "NOTSET") and p["conv_pads"] != "absent":
        return True
    return False


def _pc_build(p, rule):
    integer = "integer" in rule["id"]
    r = p["rank"]
    ns = r - 2
    mb = MB(p["opset"])
    dt = p["xdt"] if integer else "f32"
    C = 2
    xs = [2, C] + [5, 6, 4][:ns]
    x = mb.inp("x", dt, S.shp(p, xs))
    S.bind_like(mb, xs, variants=[{"N": 1, "?0": 1}])
    # pads over all axes: begins then ends
    b = [0] * r
    e = [0] * r
    kind = p["pads"]
    if kind == "sym1":
        for i in range(2, r):
            b[i] = e[i] = 1
    elif kind == "asym":
        for i in range(2, r):
            b[i], e[i] = 1, 2
        b[r - 1] = 0
    elif kind == "neg":
        for i in range(2, r):
            b[i], e[i] = 1, 1
        e[r - 1] = -1
    elif kind == "batch":
        b[0] = 1
    elif kind == "chan":
        e[1] = 2
    ax = p["axes"]
    if ax == "absent":
        axes = None
        pv = b + e
    else:
        if ax == "spatial":
            axes = list(range(2, r))
        elif ax == "neg-spatial":
            axes = [i - r for i in range(2, r)]
        elif ax == "last-only":
            axes = [r - 1]
        else:
            axes = list(range(r))[::-1]
        pv = [b[a % r] for a in axes] + [e[a % r] for a in axes]
    k = S.kinds(p, 3)
    pads_c = mb.const(arr("i64", pv), k[0], alts=[arr("i64", [0] * len(pv))])
    cvs = {"0": 0, "1": 1, "-0.0": -0.0, "1e-9": 1e-9}
    ins = [x, pads_c]
    if p["cv"] in cvs:
        ins.append(mb.const(np.array(cvs[p["cv"]], dtype=S.npd(dt)), k[1], alts=[np.array(1, dtype=S.npd(dt))]))
    elif axes is not None:
        ins.append(None)
    if axes is not None:
        ins.append(mb.const(arr("i64", axes), k[2], alts=[arr("i64", axes[::-1])]))
    attrs = {} if p["mode"] == "absent" else {"mode": p["mode"]}
    pad = mb.node("Pad", ins, **attrs)
    g = p["group"]
    Cin = C + (2 if kind == "chan" else 0)
    if Cin % g:
        raise Skip("group does not divide channels")
    M = 2 * g
    ws = [M, Cin // g] + [3] * ns
    cattrs = {}
    if p["conv_pads"] == "ones":
        cattrs["pads"] = [1] * (2 * ns)
    elif p["conv_pads"] == "asym":
        cattrs["pads"] = ([0, 1, 2][:ns] + [2, 0, 1][:ns])
    if p["auto_pad"] != "absent":
        cattrs["auto_pad"] = p["auto_pad"]
    if p["stride"] != 1:
        cattrs["strides"] = [p["stride"]] * ns
    if p["dilation"] != 1:
        cattrs["dilations"] = [p["dilation"]] * ns
    if g != 1:
        cattrs["group"] = g
    if integer:
        wdt = "u8" if dt == "u8" else "i8"
        w = mb.const(_w(wdt, ws), "init")
        cins = [pad, w]
        if p["xzp"] != "absent" or p["wzp"] != "absent":
            cins.append(mb.const(np.array(int(p["xzp"]) if p["xzp"] != "absent" else 0, dtype=S.npd(dt)), "init"))
        if p["wzp"] != "absent":
            cins.append(mb.const(np.array(int(p["wzp"]), dtype=S.npd(wdt)), "init"))
        y = mb.node("ConvInteger", cins, **cattrs)
    else:
        w = mb.const(_w("f32", ws), "init")
        cins = [pad, w]
        if p["bias"] == "yes":
            cins.append(mb.const(_w("f32", [M], salt=3), "init"))
        y = mb.node("Conv", cins, **cattrs)
    mb.out(y)
    S.expose(mb, p, [pad])
    return mb


def _pc_near(p, rule):
    return p["pads"] in ("neg", "batch", "chan") or p["cv"] in ("1", "1e-9") or p["mode"] in ("reflect", "edge") \
        or p["auto_pad"] not in ("absent", "NOTSET") or S.is_nonconst(p) or p.get("xzp") == "3"


def _pc_klass(nd, p, rule):
    if "xzp" in nd and set(nd) <= {"xzp", "pads", "xdt", "rank", "axes", "wzp"}:
        return "xzp=nonzero"
    return None


S.register(Space("pad_conv", _pc_dims, _pc_build, near=_pc_near, prune=_pc_prune, klass=_pc_klass,
                 max_dev={"thorough": 1}),
           rule_ids=["fuse_pad_into_conv_rule", "fuse_pad_into_conv_integer_rule"])


# ---------------------------------------------------------------------------------------------------
# Conv / ConvInteger with auto_pad != NOTSET -> explicit pads
# ---------------------------------------------------------------------------------------------------
def _np_dims(rule):
    integer = "integer" in rule["id"]
    d = [
        Dim("auto_pad", ["SAME_UPPER", "SAME_LOWER", "VALID", "NOTSET", "absent"]),
        Dim("stride", [1, 2, 3]),
        Dim("dilation", [1, 2], [1, 2, 3]),
        Dim("kernel", [3, 2], [3, 2, 1, 4]),
        Dim("insize", [5, 6], [5, 6, 7, 1]),
        Dim("kshape_attr", ["present", "absent"]),
        Dim("rank", [4, 3, 5], cost=1),
        Dim("aniso", ["no", "yes"], cost=1),     # second spatial axis gets stride/dilation 1 and size+1
        Dim("group", [1, 2], cost=1),
        Dim("conv_pads", ["absent", "zeros", "ones"], cost=1),
        Dim("symax", ["batch", "spatial"], cost=1),
    ]
    if not integer:
        d += [Dim("bias", ["no", "yes"], cost=1)]
    else:
        d += [Dim("xzp", ["absent", "3"], cost=1)]
    d += [S.D_DIMS, S.D_VI, S.d_opset(18, 13, 21, 23)]
    return d


def _np_prune(p, rule):
    if p["symax"] != "batch" and p["dims"] == "static":
        return True
    return False


def _np_build(p, rule):
    integer = "integer" in rule["id"]
    r = p["rank"]
    ns = r - 2
    mb = MB(p["opset"])
    dt = "u8" if integer else "f32"
    g = p["group"]
    C = 2
    sp = [p["insize"]] * ns
    st = [p["stride"]] * ns
    dl = [p["dilation"]] * ns
    if p["aniso"] == "yes" and ns >= 2:
        sp[1] += 1
        st[1] = 1
        dl[1] = 1
    xs = [2, C] + sp
    sym_axes = (0,) if p["symax"] == "batch" else (2,)
    x = mb.inp("x", dt, S.shp(p, xs, sym_axes=sym_axes))
    S.bind_like(mb, xs, sym_axes=sym_axes)
    ws = [2 * g, C // g] + [p["kernel"]] * ns
    attrs = {}
    if p["auto_pad"] != "absent":
        attrs["auto_pad"] = p["auto_pad"]
    if st != [1] * ns:
        attrs["strides"] = st
    if dl != [1] * ns:
        attrs["dilations"] = dl
    if p["kshape_attr"] == "present":
        attrs["kernel_shape"] = [p["kernel"]] * ns
    if g != 1:
        attrs["group"] = g
    if p["conv_pads"] == "zeros":
        attrs["pads"] = [0] * (2 * ns)
    elif p["conv_pads"] == "ones":
        attrs["pads"] = [1] * (2 * ns)
    if integer:
        ins = [x, mb.const(_w("u8", ws), "init")]
        if p["xzp"] != "absent":
            ins.append(mb.const(np.array(3, dtype=np.uint8), "init"))
        y = mb.node("ConvInteger", ins, **attrs)
    else:
        ins = [x, mb.const(_w("f32", ws), "init")]
        if p["bias"] == "yes":
            ins.append(mb.const(_w("f32", [2 * g], salt=3), "init"))
        y = mb.node("Conv", ins, **attrs)
    mb.out(y)
    return mb


def _np_spec(p, rule):
    from vf.props import c05_np
    integer = "integer" in rule["id"]
    ns = p["rank"] - 2
    g = p["group"]
    st = [p["stride"]] * ns
    dl = [p["dilation"]] * ns
    if p["aniso"] == "yes" and ns >= 2:
        st[1] = 1
        dl[1] = 1
    ws = [2 * g, 2 // g] + [p["kernel"]] * ns
    pads = {"absent": None, "zeros": [0] * (2 * ns), "ones": [1] * (2 * ns)}[p["conv_pads"]]
    ap = None if p["auto_pad"] == "absent" else p["auto_pad"]
    if ap not in (None, "NOTSET") and pads is not None:
        return None

    def f(fd):
        x = fd["x"]
        if integer:
            y = c05_np.conv_integer(x, _w("u8", ws), xzp=3 if p["xzp"] != "absent" else 0, strides=st, dilations=dl,
                                    pads=pads, group=g, auto_pad=ap)
            return None if y is None else [y]
        b = _w("f32", [2 * g], salt=3) if p["bias"] == "yes" else None
        y = c05_np.conv(x, _w("f32", ws), b, st, dl, pads, g, ap)
        return None if y is None else [y.astype(np.float32)]
    return f


def _np_near(p, rule):
    return p["auto_pad"] in ("NOTSET", "absent") or (p["dims"] != "static" and p["symax"] == "spatial")


def _np_klass(nd, p, rule):
    if "dilation" in nd and set(nd) <= {"dilation", "stride", "kernel", "insize", "auto_pad", "kshape_attr", "rank"}:
        return "dilation>1"
    return None


S.register(Space("normalize_pad_format", _np_dims, _np_build, near=_np_near, prune=_np_prune, klass=_np_klass, spec=_np_spec,
                 max_dev={"thorough": 1}),
           rule_ids=["normalize_pad_format_conv_rule", "normalize_pad_format_conv_integer_rule"])


# ---------------------------------------------------------------------------------------------------
# BatchNormalization(Conv | ConvTranspose | Gemm) -> folded weights
# ---------------------------------------------------------------------------------------------------
def _bn_dims(rule):
    rid = rule["id"]
    d = []
    if "gemm" in rid:
        d += [Dim("transA", [0, 1]), Dim("transB", [0, 1]),
              Dim("alpha", ["absent", 2.0], ["absent", 1.0, 2.0]),
              Dim("beta", ["absent", 0.5], ["absent", 1.0, 0.5]),
              Dim("C", ["absent", "[N]", "[M,N]", "[]"], ["absent", "[N]", "[1,N]", "[M,N]", "[]", "[1]", "[M,1]"])]
    else:
        d += [Dim("bias", ["no", "yes"]), Dim("group", [1, 2]), Dim("rank", [4, 3], [4, 3, 5]),
              Dim("stride", [1, 2], cost=1), Dim("conv_pads", ["absent", "ones"], cost=1),
              Dim("dilation", [1, 2], cost=1)]
        if "transpose" in rid:
            d += [Dim("output_padding", ["absent", "1"], cost=1)]
    d += [
        Dim("eps", ["absent", 1e-3, 0.1], cost=1),
        Dim("training", ["absent", 0, 1, "1+outputs"], cost=1),
        Dim("dtype", ["f32", "f64"], cost=1),
        Dim("shared", ["no", "weight", "bias", "bn-scale"], cost=1),
        S.d_ck(6), S.d_inter(1), S.D_DIMS, S.D_VI, S.d_opset(18, 13, 21, 23),
    ]
    return d


def _bn_prune(p, rule):
    if p["training"] != "absent" and p["opset"] < 14:
        return True
    if p["shared"] == "bias" and (p.get("bias") == "no" or p.get("C") in ("absent",)):
        return True
    if p["ck"] in ("init_input@5", "input@5") and (p.get("bias") == "no" or p.get("C") == "absent"):
        return True
    if p.get("output_padding", "absent") != "absent" and p["stride"] == 1:
        return True
    return False


def _bn_build(p, rule):
    rid = rule["id"]
    dt = p["dtype"]
    mb = MB(p["opset"])
    k = S.kinds(p, 6)   # W, scale, bias_bn, mean, var, inbound bias
    d = S.npd(dt)

    def cst(a, kind, salt):
        return mb.const(a.astype(d), kind, alts=[(a * 1.5 + 0.25).astype(d)])
    if "gemm" in rid:
        M, K, N = 3, 4, 2
        a_shape = [K, M] if p["transA"] else [M, K]
        x = mb.inp("x", dt, S.shp(p, a_shape, sym_axes=(1,) if p["transA"] else (0,)))
        S.bind_like(mb, a_shape, sym_axes=(1,) if p["transA"] else (0,))
        w_shape = [N, K] if p["transB"] else [K, N]
        wv = _w(dt, w_shape)
        w = cst(wv, k[0], 1)
        ins = [x, w]
        cmap = {"[N]": [N], "[1,N]": [1, N], "[M,N]": [M, N], "[]": [], "[1]": [1], "[M,1]": [M, 1]}
        bname = None
        if p["C"] != "absent":
            bname = cst(_w(dt, cmap[p["C"]], salt=3, scale=1.0), k[5], 3)
            ins.append(bname)
        attrs = {}
        if p["transA"]:
            attrs["transA"] = 1
        if p["transB"]:
            attrs["transB"] = 1
        if p["alpha"] != "absent":
            attrs["alpha"] = float(p["alpha"])
        if p["beta"] != "absent":
            attrs["beta"] = float(p["beta"])
        inbound = mb.node("Gemm", ins, **attrs)
        ch = N
        if p["shared"] == "weight":
            mb.out(mb.node("Transpose", [w], perm=[1, 0]))
    else:
        r = p["rank"]
        ns = r - 2
        g = p["group"]
        Cin = 2 * g
        xs = [2, Cin] + [7, 6, 5][:ns]
        x = mb.inp("x", dt, S.shp(p, xs))
        S.bind_like(mb, xs, variants=[{"N": 1, "?0": 1}])
        attrs = {}
        if g != 1:
            attrs["group"] = g
        if p["stride"] != 1:
            attrs["strides"] = [p["stride"]] * ns
        if p["conv_pads"] == "ones":
            attrs["pads"] = [1] * (2 * ns)
        if p["dilation"] != 1:
            attrs["dilations"] = [p["dilation"]] * ns
        if "transpose" in rid:
            Mg = 3  # out channels per group
            ws = [Cin, Mg] + [3] * ns
            ch = Mg * g
            op = "ConvTranspose"
            if p.get("output_padding", "absent") != "absent":
                attrs["output_padding"] = [1] * ns
        else:
            ch = 2 * g
            ws = [ch, Cin // g] + [3] * ns
            op = "Conv"
        w = cst(_w(dt, ws), k[0], 1)
        ins = [x, w]
        bname = None
        if p["bias"] == "yes":
            bname = cst(_w(dt, [ch], salt=3, scale=1.0), k[5], 3)
            ins.append(bname)
        inbound = mb.node(op, ins, **attrs)
        if p["shared"] == "weight":
            mb.out(mb.node(op, ins, **attrs))
    if p["shared"] == "bias":
        mb.out(mb.node("Neg", [bname]))
    scale = cst(_w(dt, [ch], salt=4, scale=0.5) + d(1.5), k[1], 4)
    bb = cst(_w(dt, [ch], salt=5, scale=1.0), k[2], 5)
    mean = cst(_w(dt, [ch], salt=6, scale=0.5), k[3], 6)
    var = cst(_pos(dt, [ch], salt=7), k[4], 7)
    if p["shared"] == "bn-scale":
        mb.out(mb.node("Neg", [scale]))
    battrs = {}
    if p["eps"] != "absent":
        battrs["epsilon"] = float(p["eps"])
    tr = p["training"]
    if tr in (0, 1):
        battrs["training_mode"] = int(tr)
    if tr == "1+outputs":
        battrs["training_mode"] = 1
        y, rm, rv = mb.node("BatchNormalization", [inbound, scale, bb, mean, var], n_out=3, **battrs)
        mb.out(y)
        mb.out(rm)
        mb.out(rv)
    else:
        mb.out(mb.node("BatchNormalization", [inbound, scale, bb, mean, var], **battrs))
    S.expose(mb, p, [inbound])
    return mb


def _bn_spec(p, rule):
    from vf.props import c05_np
    rid = rule["id"]
    if "gemm" in rid or p["training"] in (1, "1+outputs") or S.is_nonconst(p) or p["inter"] != "none" or p["shared"] != "no":
        return None
    dt = p["dtype"]
    ns = p["rank"] - 2
    g = p["group"]
    Cin = 2 * g
    st = [p["stride"]] * ns
    dl = [p["dilation"]] * ns
    pads = [1] * (2 * ns) if p["conv_pads"] == "ones" else None
    tr = "transpose" in rid
    ch = 3 * g if tr else 2 * g
    ws = ([Cin, 3] if tr else [ch, Cin // g]) + [3] * ns
    d = S.npd(dt)
    w = _w(dt, ws)
    b = _w(dt, [ch], salt=3, scale=1.0) if p["bias"] == "yes" else None
    scale = _w(dt, [ch], salt=4, scale=0.5) + d(1.5)
    bb, mean, var = _w(dt, [ch], salt=5, scale=1.0), _w(dt, [ch], salt=6, scale=0.5), _pos(dt, [ch], salt=7)
    eps = 1e-5 if p["eps"] == "absent" else float(np.float32(p["eps"]))

    def f(fd):
        x = fd["x"]
        if tr:
            op = [1] * ns if p.get("output_padding", "absent") != "absent" else None
            y = c05_np.conv_transpose(x, w, b, st, dl, pads, g, op)
        else:
            y = c05_np.conv(x, w, b, st, dl, pads, g, None)
        if y is None:
            return None
        return [c05_np.batchnorm(y, scale, bb, mean, var, eps).astype(d)]
    return f


def _bn_near(p, rule):
    return p["training"] in (1, "1+outputs") or S.is_nonconst(p) or p["ck"] == "node" or p["shared"] in ("weight", "bias") \
        or p["inter"] != "none"


def _bn_klass(nd, p, rule):
    if "gemm" in rule["id"] and set(nd) <= {"beta", "C", "alpha", "transA", "transB"}:
        if "beta" in nd:
            return "beta!=1"
        if "C" in nd:
            return "C=" + str(nd["C"])
    return None


S.register(Space("fuse_batchnorm", _bn_dims, _bn_build, near=_bn_near, prune=_bn_prune, klass=_bn_klass,
                 max_dev={"thorough": 1}, accum=True, spec=_bn_spec),
           rule_ids=["fuse_batchnorm_into_conv_rule", "fuse_batchnorm_into_conv_transpose_rule",
                     "fuse_batchnorm_into_gemm_rule"])


# ---------------------------------------------------------------------------------------------------
# zero bias removal: Conv, ConvTranspose, QLinearConv, Gemm
# ---------------------------------------------------------------------------------------------------
def _rb_dims(rule):
    rid = rule["id"]
    d = [Dim("bval", ["zeros", "negzero", "tiny", "nonzero", "one-nonzero"]),
         Dim("ck", ["init", "node", "init_input@0", "input@0"])]
    if "gemm" in rid:
        d += [Dim("C", ["[N]", "[M,N]", "[1]", "[]"], ["[N]", "[M,N]", "[1]", "[]", "[1,N]", "[M,1]"]),
              Dim("transA", [0, 1], cost=1), Dim("transB", [0, 1], cost=1),
              Dim("alpha", ["absent", 2.0], cost=1), Dim("beta", ["absent", 0.5], cost=1),
              Dim("dtype", ["f32", "f64", "i32"], cost=1),
              S.D_DIMS, S.D_VI, S.d_opset(18, 13, 9, 10, 11, 21, 23)]
    elif "qlinear" in rid:
        d += [Dim("xdt", ["u8", "i8"]), Dim("group", [1, 2]), Dim("conv_pads", ["absent", "ones"]),
              Dim("stride", [1, 2], cost=1), Dim("per_channel", ["no", "yes"], cost=1),
              S.D_DIMS, S.D_VI, S.d_opset(18, 13, 10, 21, 23)]
    else:
        d += [Dim("rank", [4, 3], [4, 3, 5]), Dim("group", [1, 2]),
              Dim("conv_pads", ["absent", "ones"]), Dim("auto_pad", ["absent", "SAME_UPPER"]),
              Dim("stride", [1, 2], cost=1), Dim("dilation", [1, 2], cost=1),
              Dim("dtype", ["f32"], ["f32", "f64"]),
              S.D_DIMS, S.D_VI, S.d_opset(18, 13, 11, 21, 23)]
        if "transpose" in rid:
            d += [Dim("output_shape", ["absent", "given"], cost=1)]
    return d


def _rb_prune(p, rule):
    if p.get("auto_pad", "absent") != "absent" and p.get("conv_pads", "absent") != "absent":
        return True
    if p.get("dtype") == "i32" and p["bval"] in ("negzero", "tiny"):
        return True
    if p.get("output_shape", "absent") == "given" and p.get("auto_pad", "absent") != "absent":
        return True
    return False


def _bias(p, dt, shape):
    d = S.npd(dt)
    n = int(np.prod(shape)) if shape else 1
    bv = p["bval"]
    if bv == "zeros":
        a = np.zeros(shape, dtype=d)
    elif bv == "negzero":
        a = np.full(shape, -0.0, dtype=d)
    elif bv == "tiny":
        a = np.full(shape, 1e-9, dtype=d)
    elif bv == "nonzero":
        a = np.full(shape, 3, dtype=d)
    else:
        a = np.zeros(shape, dtype=d)
        a.reshape(-1)[n - 1] = 2
    return a


def _rb_build(p, rule):
    rid = rule["id"]
    mb = MB(p["opset"])
    kind = S.kinds(p, 1)[0]
    if "gemm" in rid:
        dt = p["dtype"]
        M, K, N = 3, 4, 2
        a_shape = [K, M] if p["transA"] else [M, K]
        x = mb.inp("x", dt, S.shp(p, a_shape, sym_axes=(1,) if p["transA"] else (0,)))
        S.bind_like(mb, a_shape, sym_axes=(1,) if p["transA"] else (0,))
        w = mb.const(_w(dt, [N, K] if p["transB"] else [K, N]), "init")
        cs = {"[N]": [N], "[1,N]": [1, N], "[M,N]": [M, N], "[]": [], "[1]": [1], "[M,1]": [M, 1]}[p["C"]]
        bz = _bias(p, dt, cs)
        b = mb.const(bz, kind, alts=[bz + S.npd(dt)(2)])
        attrs = {}
        if p["transA"]:
            attrs["transA"] = 1
        if p["transB"]:
            attrs["transB"] = 1
        if p["alpha"] != "absent":
            attrs["alpha"] = float(p["alpha"])
        if p["beta"] != "absent":
            attrs["beta"] = float(p["beta"])
        mb.out(mb.node("Gemm", [x, w, b], **attrs))
        return mb
    if "qlinear" in rid:
        dt = p["xdt"]
        g = p["group"]
        Cin = 2 * g
        M = 2 * g
        xs = [2, Cin, 5, 4]
        x = mb.inp("x", dt, S.shp(p, xs))
        S.bind_like(mb, xs, variants=[{"N": 1, "?0": 1}])
        w = mb.const(_w(dt, [M, Cin // g, 3, 3]), "init")
        wsc = np.array([0.5] * M, dtype=np.float32) if p["per_channel"] == "yes" else np.array(0.5, dtype=np.float32)
        wzp = np.zeros([M], dtype=S.npd(dt)) if p["per_channel"] == "yes" else np.array(0, dtype=S.npd(dt))
        bz = _bias(p, "i32", [M])
        b = mb.const(bz, kind, alts=[bz + np.int32(5)])
        attrs = {}
        if g != 1:
            attrs["group"] = g
        if p["conv_pads"] == "ones":
            attrs["pads"] = [1, 1, 1, 1]
        if p["stride"] != 1:
            attrs["strides"] = [p["stride"]] * 2
        ins = [x, mb.const(np.array(0.25, dtype=np.float32), "init"), mb.const(np.array(3 if dt == "u8" else -2, dtype=S.npd(dt)), "init"),
               w, mb.const(wsc, "init"), mb.const(wzp, "init"),
               mb.const(np.array(0.75, dtype=np.float32), "init"), mb.const(np.array(5 if dt == "u8" else 1, dtype=S.npd(dt)), "init"), b]
        mb.out(mb.node("QLinearConv", ins, **attrs))
        return mb
    dt = p["dtype"]
    r = p["rank"]
    ns = r - 2
    g = p["group"]
    Cin = 2 * g
    xs = [2, Cin] + [7, 6, 5][:ns]
    x = mb.inp("x", dt, S.shp(p, xs))
    S.bind_like(mb, xs, variants=[{"N": 1, "?0": 1}])
    attrs = {}
    if g != 1:
        attrs["group"] = g
    if p["conv_pads"] == "ones":
        attrs["pads"] = [1] * (2 * ns)
    if p["auto_pad"] != "absent":
        attrs["auto_pad"] = p["auto_pad"]
    if p["stride"] != 1:
        attrs["strides"] = [p["stride"]] * ns
    if p["dilation"] != 1:
        attrs["dilations"] = [p["dilation"]] * ns
    if "transpose" in rid:
        Mg = 3
        ws, ch, op = [Cin, Mg] + [3] * ns, Mg * g, "ConvTranspose"
        if p.get("output_shape") == "given":
            attrs["output_shape"] = [((s - 1) * p["stride"] + (3 - 1) * p["dilation"] + 1) + 1 for s in xs[2:]]
            attrs.pop("pads", None)
    else:
        ch = 2 * g
        ws, op = [ch, Cin // g] + [3] * ns, "Conv"
    w = mb.const(_w(dt, ws), "init")
    bz = _bias(p, dt, [ch])
    b = mb.const(bz, kind, alts=[bz + S.npd(dt)(2)])
    mb.out(mb.node(op, [x, w, b], **attrs))
    return mb


def _rb_spec(p, rule):
    from vf.props import c05_np
    rid = rule["id"]
    if "gemm" in rid or "qlinear" in rid or S.is_nonconst(p) or p.get("auto_pad", "absent") != "absent":
        return None
    dt = p["dtype"]
    ns = p["rank"] - 2
    g = p["group"]
    Cin = 2 * g
    tr = "transpose" in rid
    ch = 3 * g if tr else 2 * g
    ws = ([Cin, 3] if tr else [ch, Cin // g]) + [3] * ns
    st, dl = [p["stride"]] * ns, [p["dilation"]] * ns
    pads = [1] * (2 * ns) if p["conv_pads"] == "ones" else None
    w = _w(dt, ws)
    b = _bias(p, dt, [ch])

    def f(fd):
        x = fd["x"]
        if tr:
            osh = None
            if p.get("output_shape") == "given":
                osh = [((s - 1) * p["stride"] + 2 * p["dilation"] + 1) + 1 for s in x.shape[2:]]
            y = c05_np.conv_transpose(x, w, b, st, dl, None if osh else pads, g, None, osh)
        else:
            y = c05_np.conv(x, w, b, st, dl, pads, g, None)
        return None if y is None else [y.astype(S.npd(dt))]
    return f


def _rb_klass(nd, p, rule):
    if "opset" in nd and "gemm" in rule["id"] and nd["opset"] < 11:
        return "opset<11"
    return None


def _rb_near(p, rule):
    return p["bval"] in ("tiny", "nonzero", "one-nonzero") or S.is_nonconst(p)


S.register(Space("remove_optional_bias", _rb_dims, _rb_build, near=_rb_near, prune=_rb_prune, klass=_rb_klass, spec=_rb_spec),
           rule_ids=["remove_optional_bias_from_conv_rule", "remove_optional_bias_from_conv_transpose_rule",
                     "remove_optional_bias_from_qlinear_conv_rule", "remove_optional_bias_from_gemm_rule"])
