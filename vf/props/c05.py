"""C05 - each shipped rewrite rule preserves semantics wherever it fires.

One *rule space* per rule object reachable from the exported names of ``onnxscript.rewriter.rules.common`` and
the ``rules.fusion`` sub-modules (enumerated from the live modules, optimizer default set first).  A space is a
finite grid of host models: the rule's target pattern and its near-misses.  Every grid point is built
(onnx.helper only), checked with onnx.checker, and exactly that rule is applied with
``RewriteRuleSet([R]).apply_to_model``.  If it fired: ORT(before) vs ORT(after) on >= 3 input valuations
(original admitted only when ORT and onnx.reference agree), onnx.checker(full_check) for the declared opset,
vf.wf.  A rule that has no space is listed in evidence as uncovered.
"""
from __future__ import annotations

import collections
import json
import os
import zlib

from vf import explore
from vf.props import c05_core as core
from vf.props import c05_spaces as spaces

ID = "C05"
LEVEL = "model_checking"
RULE = ("per rule object R (enumerated from _DEFAULT_REWRITE_RULES, rules.common.__all__, rules.fusion modules): "
        "the full grid of R's rule-specific dimensions (cost 0) x host dimensions (constant given as Constant "
        "node/initializer/initializer+input/plain input, intermediate with extra consumer or as graph output, "
        "static/symbolic/unnamed dims, value_info present or not, opset) within a deviation bound (quick 1, "
        "thorough 2); a leaf = one host model; non-trivial = the rule was really applied to the real model and "
        "reached the oracle (fired or declined); distinct by (rule, parameters)")
ASSUMPTIONS = ["onnxruntime 1.30 CPU (ORT_DISABLE_ALL) and onnx.reference define what a model computes; an input "
               "on which they disagree about the ORIGINAL model is skipped and counted (for Conv/ConvTranspose/"
               "BatchNormalization/Flatten hosts a numpy specification written from the operator docs replaces "
               "onnx.reference as second opinion, because its Conv mishandles auto_pad and it lacks grouped "
               "ConvTranspose and size-0 Flatten); a mismatch on which onnx.reference(after) reproduces the original "
               "is counted as runtime disagreement about the rewritten model, not as a violation",
               "floats compared with vf.runeq tolerances; rules that re-associate a reduction (weights folded into "
               "Conv/Gemm, fused normalisations) are compared against the magnitude of the output tensor "
               "(2e-5 f32 / 1e-9 f64 / 4e-3 f16 times max|y|); RMSNorm hosts that compute in a narrower type than "
               "their input are compared at the narrower type's tolerance",
               "onnx.checker.check_model(full_check=True) defines validity for the declared opset",
               "rule spaces are hand-written from the rule sources; the dimensions per rule are listed in evidence",
               "an exception raised by a rule is a refusal (counted), totality is C04's subject"]

_PRIORITY = ["not-equivalent", "after-fails", "invalid-model", "ill-formed"]


def _rules():
    rules = core.discover()
    only = os.environ.get("C05_ONLY")     # development aid: restrict to rules whose id contains this substring
    if only:
        rules = [r for r in rules if only in r["id"]]
    return rules


def _driver_for(tier, rules):
    bound_spaces = {r["id"]: spaces.lookup(r) for r in rules}

    def driver(ch):
        r = ch.all("rule", rules)
        sp = bound_spaces[r["id"]]
        if sp is None:
            return {"rule": r["id"], "path": r["path"], "sig": r["sig"], "space": None, "p": {}}
        p = {}
        ndev = 0
        cap = sp.max_dev.get(tier)
        for d in sp.dims(tier, r):
            vals = d.values(tier)
            if d.cost == 0:
                p[d.name] = ch.all(f"{sp.name}.{d.name}", vals)
            elif cap is not None and ndev >= cap:
                p[d.name] = vals[0]      # the space's own deviation bound is exhausted: no choice point
            else:
                p[d.name] = ch.choose(f"{sp.name}.{d.name}", vals)
                ndev += p[d.name] != vals[0]
        if sp.prune is not None and sp.prune(p, r):
            raise explore.Prune()
        return {"rule": r["id"], "path": r["path"], "sig": r["sig"], "space": sp.name, "p": p}
    return driver


def plan(tier, seed):
    rules = _rules()
    st = explore.Stats()
    bound = 1 if tier == "quick" else 2
    items = [case for _, case in explore.explore(_driver_for(tier, rules), bound=bound, stats=st)]
    d = st.as_dict()
    d["exhaustive"] = not st.capped
    d["dimensions"] = {k: len(v) for k, v in st.dim_hist.items()}
    d["rules_enumerated"] = len(rules)
    return items, d


# ---------------------------------------------------------------------------------------------------
# worker side
# ---------------------------------------------------------------------------------------------------
_TIER = "quick"
_MEMO = {}


def worker_init(arg):
    global _TIER
    if arg:
        _TIER = arg.get("tier", "quick")


def _rule_desc(item):
    return {"id": item["rule"], "path": item["path"], "sig": item.get("sig", "")}


def _eval(item_rule, path, spname, p, sig=""):
    """-> (primary kind | None, judge result (without protos), show)  memoised per worker."""
    key = (item_rule, json.dumps(p, sort_keys=True))
    if key in _MEMO:
        return _MEMO[key]
    sp = spaces.SPACES[spname]
    rule = core.resolve(path)
    try:
        mb = sp.build(dict(p), {"id": item_rule, "path": path, "sig": sig})
    except spaces.Skip as e:
        out = (None, {"outcome": "skip:" + str(e), "fired": False, "problems": [], "skipped": {}, "admitted": 0}, None)
        _MEMO[key] = out
        return out
    try:
        model = mb.build(value_info=p.get("vi", "yes") != "no")
    except Exception as e:  # noqa: BLE001  (onnx strict shape inference rejects the host: not a case)
        out = (None, {"outcome": "skip:host-not-typable", "fired": False, "problems": [], "skipped": {}, "admitted": 0,
                      "skip_detail": f"{type(e).__name__}: {str(e)[:200]}"}, None)
        _MEMO[key] = out
        return out
    spec = sp.spec(dict(p), {"id": item_rule, "path": path, "sig": sig}) if sp.spec is not None else None
    loose = sp.tol(dict(p), {"id": item_rule, "path": path, "sig": sig}) if sp.tol is not None else 1.0
    res = core.judge(rule, model, mb.feeds(), spec=spec, accum=sp.accum, loose=loose)
    kinds = [k for k, _ in res["problems"]]
    primary = next((k for k in _PRIORITY if k in kinds), None)
    show = None
    if res.get("after") is not None and (primary or zlib.crc32(key[1].encode()) % 97 == 0):
        show = "BEFORE " + core.render(model, 900) + "\nAFTER " + core.render(res["after"], 900)
    res.pop("after", None)
    out = (primary, res, show)
    if len(_MEMO) > 20000:
        _MEMO.clear()
    _MEMO[key] = out
    return out


def _fmt(v):
    return json.dumps(v, separators=(",", ":")) if not isinstance(v, str) else v


def _kinds_of(res):
    return {k for k, _ in res["problems"]}


def _minimise(item, kind):
    """Greedy: reset every non-default parameter to the space default while a violation of this kind remains.

    -> (minimal params, primary kind of the minimal case, class string)."""
    sp = spaces.SPACES[item["space"]]
    r = _rule_desc(item)
    dims = sp.dims(_TIER, r)
    p = dict(item["p"])
    changed = True
    while changed:
        changed = False
        for d in reversed(dims):
            dv = d.values(_TIER)[0]
            if p.get(d.name) == dv:
                continue
            q = dict(p)
            q[d.name] = dv
            if sp.prune is not None and sp.prune(q, r):
                continue
            _, res2, _ = _eval(item["rule"], item["path"], item["space"], q, item.get("sig", ""))
            if kind in _kinds_of(res2):
                p = q
                changed = True
    kmin, _, _ = _eval(item["rule"], item["path"], item["space"], p, item.get("sig", ""))
    nd = collections.OrderedDict((d.name, p[d.name]) for d in dims if p.get(d.name) != d.values(_TIER)[0])
    # an operand that is only a default (initializer that is also an input) or a runtime input was treated as a
    # constant: that alone is the distinguishing class, whichever operand and values made it visible
    ck = str(nd.get("ck", ""))
    if ck.startswith("init_input@") or ck.startswith("input@"):
        return p, kmin or kind, "ck=" + ck.split("@")[0]
    klass = sp.klass(nd, p, r) if sp.klass is not None else None
    if klass is None:
        klass = ",".join(f"{k}={_fmt(v)}" for k, v in nd.items()) or "default"
    return p, kmin or kind, klass


def execute(item):
    if item["space"] is None:
        return {"status": "skip", "skip": "uncovered-rule", "outcome": "uncovered", "rule": item["rule"]}
    sp = spaces.SPACES[item["space"]]
    primary, res, show = _eval(item["rule"], item["path"], item["space"], item["p"], item.get("sig", ""))
    near = bool(sp.near(item["p"], _rule_desc(item))) if sp.near is not None else False
    outcome = res["outcome"]
    counts = {"extra_evaluations": 0}
    rid = item["rule"]
    out = {"rule": rid, "fired": res["fired"], "near": near, "outcome": outcome,
           "nkey": rid + "|" + json.dumps(item["p"], sort_keys=True)}
    if outcome.startswith("skip:"):
        out.update(status="skip", skip=outcome[5:])
        return out
    if outcome == "refused:exception":
        out.update(status="ok", error=res.get("error"))
        return out
    if res["skipped"]:
        for k, v in res["skipped"].items():
            counts["feeds_skipped_" + k] = v
    counts["feeds_compared"] = res["admitted"]
    if res.get("within_accum_roundoff"):
        counts["feeds_equal_only_under_accumulation_tolerance"] = res["within_accum_roundoff"]
    if res.get("admitted_by_spec"):
        counts["feeds_admitted_by_numpy_spec"] = res["admitted_by_spec"]
    out["counts"] = counts
    if primary is None:
        out["status"] = "ok"
        if show:
            out["show"] = show
        return out
    pmin, primary_min, klass = _minimise(item, primary)
    detail = next(d for k, d in res["problems"] if k == primary)
    out["status"] = "viol"
    comp = sp.component(_rule_desc(item), klass) if sp.component is not None else rid
    out["viols"] = [{"key": f"C05|{primary_min}|{comp}|{klass}",
                     "detail": {"params": item["p"], "minimal_params": pmin, "all_kinds": sorted({k for k, _ in res["problems"]}),
                                "problem": detail, "near_miss": near}}]
    out["show"] = show
    return out


def on_crash(item, res):
    return None


def summarize(items, results, tier):
    per = collections.OrderedDict()
    rules = _rules()
    for r in rules:
        sp = spaces.lookup(r)
        per[r["id"]] = dict(origin=r["origin"], space=sp.name if sp else None,
                            dimensions=({d.name: len(d.values(tier)) for d in sp.dims(tier, r)} if sp else {}),
                            instances=0, fired=0, not_fired=0, refused_exception=0, skipped=0,
                            near_miss_instances=0, near_misses_fired=0, fired_equivalent=0, violating=0)
    for it, res in zip(items, results):
        e = per.get(it["rule"])
        if e is None or res.get("status") in ("harness_error", "crash"):
            continue
        e["instances"] += 1
        oc = res.get("outcome", "")
        if res.get("status") == "skip":
            e["skipped"] += 1
            continue
        if oc == "refused:exception":
            e["refused_exception"] += 1
        elif res.get("fired"):
            e["fired"] += 1
            if oc == "fired:equivalent":
                e["fired_equivalent"] += 1
        else:
            e["not_fired"] += 1
        if res.get("near"):
            e["near_miss_instances"] += 1
            if res.get("fired"):
                e["near_misses_fired"] += 1
        if res.get("status") == "viol":
            e["violating"] += 1
    uncovered = [k for k, v in per.items() if v["space"] is None]
    never_fired = [k for k, v in per.items() if v["space"] is not None and v["fired"] == 0]
    return {"per_rule": per, "rules_total": len(per), "rules_uncovered": uncovered,
            "rules_with_space_never_fired": never_fired,
            "rules_fired_total": sum(1 for v in per.values() if v["fired"])}


# ---------------------------------------------------------------------------------------------------
# development entry: /venv/bin/python -m vf.props.c05 <substring of rule id> [tier] [max]
# ---------------------------------------------------------------------------------------------------
if __name__ == "__main__":
    import sys
    import time
    sub = sys.argv[1]
    tier = sys.argv[2] if len(sys.argv) > 2 else "quick"
    mx = int(sys.argv[3]) if len(sys.argv) > 3 else 10 ** 9
    worker_init({"tier": tier})
    items, st = plan(tier, 0)
    items = [it for it in items if sub in it["rule"]][:mx]
    print(len(items), "items")
    t0 = time.time()
    hist = collections.Counter()
    keys = collections.Counter()
    first = {}
    for it in items:
        r = execute(it)
        hist[(it["rule"], r["outcome"], "near" if r.get("near") else "")] += 1
        for v in r.get("viols") or []:
            keys[v["key"]] += 1
            first.setdefault(v["key"], (it, v))
        if r.get("error"):
            keys["EXC " + it["rule"] + " " + r["error"][:150]] += 1
    for k, v in sorted(hist.items()):
        print(v, k)
    for k, v in sorted(keys.items()):
        print("  ", v, k)
    if "-v" in sys.argv:
        for k, (it, v) in first.items():
            print(k, json.dumps(v["detail"], default=repr)[:1500])
    print(f"{time.time() - t0:.1f}s")
