"""C05 rule spaces, part 1: _no_op, _broadcast_to_matmul, _cast_constant_of_shape, _collapse_slices,
_materialize_reshape_shape, _min_max_to_clip, _fuse_relus_clips (optimizer default set, in order)."""
from __future__ import annotations

import re

import numpy as np

from vf.props import c05_spaces as S
from vf.props.c05_spaces import Dim, MB, Skip, Space, arr

INT64_MAX = 9223372036854775807

# ---------------------------------------------------------------------------------------------------
# x*1, 1*x, x+0, 0+x, x-0, x/1   (pattern literal: Constant(v, rel_tol=1e-5, abs_tol=1e-8), scalar only)
# ---------------------------------------------------------------------------------------------------
_NOOP_NEUTRAL = {"Mul": 1, "Div": 1, "Add": 0, "Sub": 0}


def _noop_parse(rule):
    m = re.match(r"(\w+) \((\w+), (\w+)\)", rule["sig"])
    op, a, b = m.group(1), m.group(2), m.group(3)
    return op, (1 if a == "x" else 0)   # position of the constant


def _noop_dims(rule):
    return [
        Dim("dtype", ["f32", "f64", "i64"], ["f32", "f64", "f16", "i64", "i32"]),
        # exact neutral element; inside the literal's tolerance (|d|<=1e-8 abs / 1e-5 rel); >=100x outside the
        # comparison tolerance; a different constant; negative zero
        Dim("cval", ["exact", "tiny-off", "far-off", "other", "negzero"]),
        Dim("cshape", [[], [1], [1, 1]], [[], [1], [1, 1], [3], [1, 1, 1]]),
        Dim("xshape", [[2, 3], []], [[2, 3], [3], [], [1]]),
        Dim("pos", ["own", "swapped"]),
        S.d_ck(1), S.D_DIMS, S.D_VI, S.d_opset(18, 13, 21, 23),
    ]


def _noop_prune(p, rule):
    if not S.is_float(p["dtype"]) and p["cval"] in ("tiny-off", "far-off", "negzero"):
        return True
    if p["dims"] != "static" and not p["xshape"]:
        return True
    return False


def _noop_const(op, p):
    neutral = _NOOP_NEUTRAL[op]
    cv = p["cval"]
    if cv == "exact":
        v = neutral
    elif cv == "tiny-off":
        v = neutral + (1e-9 if neutral == 0 else 1e-6)
    elif cv == "far-off":
        v = neutral + (1e-3 if neutral == 0 else 1e-3)
    elif cv == "other":
        v = 2
    else:
        v = -0.0 if neutral == 0 else -1.0
    return v


def _noop_build(p, rule):
    op, cpos = _noop_parse(rule)
    if p["pos"] == "swapped":
        cpos = 1 - cpos
    dt = p["dtype"]
    mb = MB(p["opset"])
    xs = p["xshape"]
    x = mb.inp("x", dt, S.shp(p, xs))
    S.bind_like(mb, xs, variants=[{"N": 1, "?0": 1}, {"N": 3, "?0": 3}] if xs else None)
    v = _noop_const(op, p)
    c = np.full(p["cshape"], v, dtype=S.npd(dt))
    alt = np.full(p["cshape"], 3, dtype=S.npd(dt))
    cn = mb.const(c, S.kinds(p, 1)[0], alts=[alt, c])
    ins = [x, cn] if cpos == 1 else [cn, x]
    mb.out(mb.node(op, ins))
    mb.special_feed = S.is_float(dt)
    return mb


def _noop_near(p, rule):
    return (p["cval"] != "exact" and not (p["cval"] == "negzero" and _noop_parse(rule)[0] in ("Add", "Sub"))) \
        or p["cshape"] != [] or p["pos"] == "swapped" and _noop_parse(rule)[0] in ("Sub", "Div") \
        or S.is_nonconst(p)


S.register(Space("noop_arith", _noop_dims, _noop_build, near=_noop_near, prune=_noop_prune),
           rule_ids=["default:Mul(x,1)", "default:Mul(1,x)", "default:Add(x,0)", "default:Add(0,x)",
                     "sub_0_rule", "div_by_1_rule", "add_0_rule", "mul_by_1_rule"])


# ---------------------------------------------------------------------------------------------------
# Dropout(x, ratio=0.0) / Dropout(x, training_mode=False)   (attributes: ratio exists only for opset < 12,
# training_mode never was an attribute)
# ---------------------------------------------------------------------------------------------------
def _dropout_dims(rule):
    return [
        Dim("opset", [10, 13, 7, 18, 22]),
        Dim("ratio", ["absent", "0.0", "1e-9", "0.5"]),
        Dim("tm", ["absent", "false", "true"]),
        Dim("mask", ["unused", "used"]),
        Dim("dtype", ["f32"], ["f32", "f64", "f16"]),
        Dim("as_attr", ["schema", "force-attr"]),   # force-attr: write ratio / training_mode as attributes even
                                                       # where the schema has them as inputs (invalid host: skipped)
        S.d_ck(2), S.D_DIMS, S.D_VI,
    ]


def _dropout_prune(p, rule):
    if p["opset"] < 12 and p["tm"] != "absent" and p["as_attr"] == "schema":
        return True
    if p["opset"] < 12 and p["ck"] != "init" and p["as_attr"] == "schema":
        return True
    return False


def _dropout_build(p, rule):
    mb = MB(p["opset"])
    dt = p["dtype"]
    x = mb.inp("x", dt, S.shp(p, [2, 3]))
    S.bind_like(mb, [2, 3], variants=[{"N": 1, "?0": 1}])
    rv = {"0.0": 0.0, "1e-9": 1e-9, "0.5": 0.5}.get(p["ratio"])
    attrs = {}
    ins = [x]
    k = S.kinds(p, 2)
    if p["opset"] < 12 or p["as_attr"] == "force-attr":
        if rv is not None:
            attrs["ratio"] = float(rv)
        if p["tm"] != "absent":
            attrs["training_mode"] = int(p["tm"] == "true")
    else:
        r_in = mb.const(arr("f32", rv), k[0], alts=[arr("f32", 0.5)]) if rv is not None else None
        t_in = mb.const(np.array(p["tm"] == "true"), k[1], alts=[np.array(True)]) if p["tm"] != "absent" else None
        ins = [x, r_in, t_in]
        while ins and ins[-1] is None:
            ins.pop()
    if p["mask"] == "used":
        y, m = mb.node("Dropout", ins, n_out=2, **attrs)
        mb.out(y)
        mb.out(m)
    else:
        mb.out(mb.node("Dropout", ins, **attrs))
    return mb


def _dropout_near(p, rule):
    return p["ratio"] not in ("0.0",) or p["mask"] == "used"


S.register(Space("dropout", _dropout_dims, _dropout_build, near=_dropout_near, prune=_dropout_prune),
           rule_ids=["dropout_zero_rule", "dropout_inference_rule"])


# ---------------------------------------------------------------------------------------------------
# Reshape/MatMul/Reshape -> MatMul  (two_reshapes_matmul_reshape_rule, one_reshape_matmul_reshape_rule)
# ---------------------------------------------------------------------------------------------------
_A_SHAPES = [[2, 3, 4], [6, 4], [4], [1, 4], [3, 4], [1, 3, 4], [4, 3], [12], [2, 1, 3, 4], [2, 4], [1, 1, 4]]
_B_SHAPES = [[4, 5], [4], [1, 4, 5], [2, 4, 5], [4, 1], [20], [5, 4], [3, 4, 5], [2, 3, 4, 5], [4, 2]]


def _matmul_shape(a, b):
    try:
        return list(np.matmul(np.zeros(a, dtype=np.int8), np.zeros(b, dtype=np.int8)).shape)
    except ValueError:
        return None


def _targets(shape, pool):
    n = int(np.prod(shape))
    out = [list(shape)]
    for s in pool:
        if int(np.prod(s)) == n and list(s) != list(shape):
            out.append(list(s))
    return out


def _rc_options(res, direct):
    """Final reshape targets: the matmul result itself, flattened leading dims, a leading 1, what
    MatMul(input_a, input_b) would give without any reshape, and a transposed-looking target."""
    n = int(np.prod(res)) if res else 1
    opts = [list(res)]
    if len(res) >= 2:
        opts.append([int(np.prod(res[:-1])), res[-1]])
        opts.append([1] + list(res))
        opts.append(list(res[:-2]) + [res[-1], res[-2]])
    if len(res) >= 3:
        opts.append([res[0], int(np.prod(res[1:]))])
    opts.append([n])
    if direct is not None and int(np.prod(direct) if direct else 1) == n:
        opts.append(list(direct))
    if direct is not None and len(direct) >= 2 and int(np.prod(direct)) == n:
        opts.append([int(np.prod(direct[:-1])), direct[-1]])
    uniq = []
    for o in opts:
        if o not in uniq:
            uniq.append(o)
    return uniq


def _bm_cases(two, tier):
    cases = []
    A = _A_SHAPES if tier != "quick" else _A_SHAPES[:6]
    B = _B_SHAPES if tier != "quick" else _B_SHAPES[:5]
    for a in A:
        for ra in _targets(a, _A_SHAPES):
            for b in B:
                rbs = _targets(b, _B_SHAPES) if two else [list(b)]
                for rb in rbs:
                    res = _matmul_shape(ra, rb)
                    if res is None:
                        continue
                    direct = _matmul_shape(a, b)
                    for rc in _rc_options(res, direct):
                        cases.append([a, ra, b, rb, rc])
    return cases


_BM_CACHE = {}


def _bm_dims(rule):
    two = rule["id"].startswith("two_")
    key = two
    if key not in _BM_CACHE:
        _BM_CACHE[key] = (_bm_cases(two, "quick"), _bm_cases(two, "thorough"))
    q, t = _BM_CACHE[key]
    return [
        Dim("case", q, t),
        Dim("dtype", ["f32", "i32", "f64"], cost=1),
        S.d_ck(3), S.d_inter(3), S.D_DIMS, S.D_VI, S.d_opset(18, 13, 21, 23),
    ]


def _bm_build(p, rule):
    two = rule["id"].startswith("two_")
    a, ra, b, rb, rc = p["case"]
    dt = p["dtype"]
    mb = MB(p["opset"])
    A = mb.inp("a", dt, S.shp(p, a))
    B = mb.inp("b", dt, b)
    S.bind_like(mb, a)
    k = S.kinds(p, 3)
    sa = mb.const(arr("i64", ra), k[0], alts=[arr("i64", ra)])
    r1 = mb.node("Reshape", [A, sa])
    if two:
        sb = mb.const(arr("i64", rb), k[1], alts=[arr("i64", rb)])
        r2 = mb.node("Reshape", [B, sb])
    else:
        r2 = B
    mm = mb.node("MatMul", [r1, r2])
    res = _matmul_shape(ra, rb)
    alt_c = [int(np.prod(res))] if res else []
    sc = mb.const(arr("i64", rc), k[2], alts=[arr("i64", alt_c), arr("i64", rc)])
    y = mb.node("Reshape", [mm, sc])
    mb.out(y)
    S.expose(mb, p, [r1, mm, r2 if two else None])
    return mb


def _bm_near(p, rule):
    a, ra, b, rb, rc = p["case"]
    return _matmul_shape(a, b) != rc or S.is_nonconst(p) or p["dims"] != "static"


def _bm_klass(nd, p, rule):
    if list(nd) == ["case"]:
        a, ra, b, rb, rc = p["case"]
        if _matmul_shape(a, b) == rc:
            # the rule only compares shapes: MatMul(a, b) has the final shape, but the reshapes regroup rows/batches
            return "case=final-shape-equals-direct-matmul-shape-but-reshape-regroups"
    return None


S.register(Space("reshape_matmul_reshape", _bm_dims, _bm_build, near=_bm_near, klass=_bm_klass, max_dev={"thorough": 1}),
           rule_ids=["two_reshapes_matmul_reshape_rule", "one_reshape_matmul_reshape_rule"])


# ---------------------------------------------------------------------------------------------------
# Cast(ConstantOfShape(shape, value=v), to=t) -> ConstantOfShape(shape, value=cast(v))
# ---------------------------------------------------------------------------------------------------
_COS_VALS = {"zero": 0, "one": 1, "frac": 2.5, "negfrac": -1.5, "neg": -1, "big": 300, "tiny": 1e-9, "huge": 3e9}


def _cos_dims(rule):
    with_value = "without_value" not in rule["id"]
    d = [
        Dim("to", ["i64", "f32", "bool", "f16", "u8"], ["i64", "f32", "bool", "f16", "u8", "i32", "f64", "i8", "bf16"]),
        Dim("shape", ["[2,3]", "[0]", "[]", "[1]"]),
        Dim("value", ["attr", "absent"]),
    ]
    d += [
        Dim("vd", ["f32", "i64", "bool", "f64"], ["f32", "i64", "bool", "f64", "f16", "i32", "u8"]),
        Dim("v", ["zero", "one", "frac", "neg", "big"], list(_COS_VALS)),
    ]
    d += [S.d_ck(1), S.d_inter(1), S.D_VI, S.d_opset(18, 13, 21, 23)]
    return d


def _cos_prune(p, rule):
    if p["value"] == "absent" and (p["vd"] != "f32" or p["v"] != "zero"):
        return True
    vd, v = p["vd"], p["v"]
    if p["value"] == "attr":
        if vd == "bool" and v not in ("zero", "one"):
            return True
        if not S.is_float(vd) and v in ("frac", "negfrac", "tiny"):
            return True
        if vd in ("u8",) and v in ("neg", "big", "huge"):
            return True
        if vd in ("i32",) and v == "huge":
            return True
    return False


def _cos_build(p, rule):
    mb = MB(p["opset"])
    shape = {"[2,3]": [2, 3], "[0]": [0], "[]": [], "[1]": [1]}[p["shape"]]
    k = S.kinds(p, 1)[0]
    sh = mb.const(arr("i64", shape), k, alts=[arr("i64", [1] * len(shape))])
    attrs = {}
    if p["value"] == "attr":
        from onnx import numpy_helper as nh
        attrs["value"] = nh.from_array(np.array([_COS_VALS[p["v"]]], dtype=S.npd(p["vd"])), "v")
    c = mb.node("ConstantOfShape", [sh], **attrs)
    from vf.props.c05_mb import ONNX_DT
    y = mb.node("Cast", [c], to=int(ONNX_DT[p["to"]]))
    mb.out(y)
    S.expose(mb, p, [c])
    return mb


def _cos_klass(nd, p, rule):
    if "without_value" in rule["id"] and p["value"] == "attr" and set(nd) <= {"v", "vd", "to", "shape"}:
        return "value=attr-present"
    return None


def _cos_near(p, rule):
    return "without_value" in rule["id"] and p["value"] == "attr"


S.register(Space("cast_constant_of_shape", _cos_dims, _cos_build, near=_cos_near, prune=_cos_prune, klass=_cos_klass),
           rule_ids=["cast_constant_of_shape_rule", "cast_constant_of_shape_without_value_rule"])


# ---------------------------------------------------------------------------------------------------
# Slice(data, starts, ends, axes, steps) -> Identity     (collapse_slice_rule, collapse_slice2_rule)
# ---------------------------------------------------------------------------------------------------
def _slice_dims(rule):
    return [
        Dim("axis", [0, 1, -1], [0, 1, -1, -2]),
        Dim("start", ["0", "1", "-d", "-d-1"], ["0", "1", "-d", "-d-1", "-1"]),
        Dim("end", ["d", "d+1", "MAX", "d-1", "-1", "0"], ["d", "d+1", "MAX", "d-1", "-1", "0", "I32MAX", "MIN"]),
        Dim("step", [1, 2, -1]),
        Dim("form", ["5in", "4in", "3in", "2axes", "2axes-partial", "scalar0d"]),
        Dim("dshape", [[4, 5], [1, 5], [0, 5]], cost=1),
        Dim("dtype", ["f32", "i64"], cost=1),
        S.d_ck(4), S.D_DIMS, S.D_VI, S.d_opset(18, 13, 21, 23),
    ]


def _slice_prune(p, rule):
    if p["form"] in ("2axes", "2axes-partial") and (p["axis"] not in (0,) or p["step"] != 1 and p["form"] == "2axes-partial"):
        return True
    if p["form"] == "4in" and p["step"] != 1 or p["form"] == "3in" and (p["step"] != 1 or p["axis"] != 0):
        return True
    return False


def _slice_build(p, rule):
    mb = MB(p["opset"])
    ds = p["dshape"]
    ax = p["axis"]
    d = ds[ax]
    x = mb.inp("x", p["dtype"], S.shp(p, ds, sym_axes=(ax % 2,)))
    S.bind_like(mb, ds, sym_axes=(ax % 2,))
    st = {"0": 0, "1": 1, "-d": -d, "-d-1": -d - 1, "-1": -1}[p["start"]]
    en = {"d": d, "d+1": d + 1, "MAX": INT64_MAX, "d-1": d - 1, "-1": -1, "0": 0, "I32MAX": 2 ** 31 - 1,
          "MIN": -INT64_MAX - 1}[p["end"]]
    k = S.kinds(p, 4)
    form = p["form"]
    if form == "2axes":
        sv, ev, av, pv = [st, 0], [en, ds[1]], [0, 1], [p["step"], 1]
    elif form == "2axes-partial":
        sv, ev, av, pv = [st, 0], [en, ds[1] - 2], [0, 1], [1, 1]
    else:
        sv, ev, av, pv = [st], [en], [ax], [p["step"]]
    if form == "scalar0d":
        mk = lambda v: arr("i64", v[0])  # noqa: E731   (0-d operands: invalid per schema -> host skipped)
    else:
        mk = lambda v: arr("i64", v)  # noqa: E731
    s_ = mb.const(mk(sv), k[0], alts=[mk([1] * len(sv))])
    e_ = mb.const(mk(ev), k[1], alts=[mk([2] * len(ev))])
    ins = [x, s_, e_]
    if form != "3in":
        ins.append(mb.const(mk(av), k[2], alts=[mk([(a + 1) % 2 for a in av])]))
        if form != "4in":
            ins.append(mb.const(mk(pv), k[3], alts=[mk([2] * len(pv))]))
    mb.out(mb.node("Slice", ins))
    mb.anon_unknown = True   # with unnamed input dims the Slice output's unknown dim is anonymous too
    return mb


def _slice_near(p, rule):
    full = p["start"] in ("0", "-d", "-d-1") and p["end"] in ("d", "d+1", "MAX", "I32MAX") and p["step"] == 1
    return (not full) or S.is_nonconst(p) or p["form"] == "2axes-partial"


S.register(Space("collapse_slice", _slice_dims, _slice_build, near=_slice_near, prune=_slice_prune, max_dev={"thorough": 1}),
           rule_ids=["collapse_slice_rule", "collapse_slice2_rule"])


# ---------------------------------------------------------------------------------------------------
# Reshape(data, <computed shape>) with known output shape -> Reshape(data, Constant, allowzero=1)
# ---------------------------------------------------------------------------------------------------
_MAT_CASES = {
    # name: (data shape, target (as y's shape), symbolic axes of data, symbolic axes of y)
    "static": ([2, 3, 4], [6, 4], (), ()),
    "one-sym": ([2, 3, 4], [2, 12], (0,), (0,)),
    "two-sym": ([2, 3, 4], [2, 3, 4], (0, 1), (0, 1)),
    "sym-merged": ([2, 3, 4], [6, 4], (0,), ()),
    "size0-static": ([0, 3], [3, 0], (), ()),
    "size0-with-sym": ([2, 0], [2, 0], (0,), (0,)),
    "size0-sym-is-0": ([2, 3], [2, 3], (0,), (0,)),
    "rank0": ([1], [], (), ()),
    "same": ([2, 3], [2, 3], (), ()),
}


def _mat_dims(rule):
    return [
        Dim("case", list(_MAT_CASES)),
        Dim("src", ["shape-of", "shape-concat", "input", "const-init", "cast-chain"]),
        Dim("allowzero", ["absent", 0, 1]),
        Dim("dtype", ["f32"], ["f32", "i64"]),
        S.d_inter(1), S.D_VI, S.d_opset(18, 13, 14, 21, 23),
        Dim("dimstyle", ["sym", "unnamed"], cost=1),
    ]


def _mat_prune(p, rule):
    return p["opset"] < 14 and p["allowzero"] != "absent"


def _mat_build(p, rule):
    ds, ts, dsym, tsym = _MAT_CASES[p["case"]]
    mb = MB(p["opset"])
    p2 = dict(p)
    p2["dims"] = "static" if not dsym else p["dimstyle"]
    x = mb.inp("x", p["dtype"], S.shp(p2, ds, sym_axes=dsym))
    binds = [{"N": ds[0], "M": ds[1] if len(ds) > 1 else 1, "?0": ds[0], "?1": ds[1] if len(ds) > 1 else 1}]
    if dsym:
        v = dict(binds[0])
        v.update({"N": 5, "?0": 5})
        binds.append(v)
        if p["case"] == "size0-sym-is-0":
            v0 = dict(binds[0])
            v0.update({"N": 0, "?0": 0})
            binds = [v0] + binds
    mb.bindings = binds
    src = p["src"]
    if src == "const-init":
        sh = mb.const(arr("i64", ts), "init")
    elif src == "input":
        sh = mb.inp("s", "i64", [len(ts)], values=[arr("i64", ts)])
    else:
        p3 = dict(p)
        p3["dims"] = "static" if not tsym else p["dimstyle"]
        y = mb.inp("y", p["dtype"], S.shp(p3, ts, sym_axes=tsym))
        if dsym and not tsym:
            pass
        sh = mb.node("Shape", [y])
        if src == "shape-concat" and len(ts) >= 1:
            first = mb.node("Slice", [sh, mb.const(arr("i64", [0])), mb.const(arr("i64", [1]))])
            rest = mb.node("Slice", [sh, mb.const(arr("i64", [1])), mb.const(arr("i64", [INT64_MAX]))])
            sh = mb.node("Concat", [first, rest], axis=0)
        elif src == "cast-chain":
            from vf.props.c05_mb import ONNX_DT
            sh = mb.node("Cast", [mb.node("Cast", [sh], to=int(ONNX_DT["i32"]))], to=int(ONNX_DT["i64"]))
    attrs = {}
    if p["allowzero"] != "absent":
        attrs["allowzero"] = int(p["allowzero"])
    r = mb.node("Reshape", [x, sh], **attrs)
    # the declared output shape is what (symbolic) shape inference yields for this host
    if src == "input":
        oshape = [None] * len(ts)
    elif src == "const-init":
        oshape = list(ts)
    else:
        p3 = dict(p)
        p3["dims"] = "static" if not tsym else p["dimstyle"]
        oshape = S.shp(p3, ts, sym_axes=tsym)
    mb.out(r, p["dtype"], oshape)
    S.expose(mb, p, [sh])
    return mb


def _mat_near(p, rule):
    return p["case"] in ("two-sym",) or p["src"] in ("input", "const-init")


S.register(Space("materialize_reshape_shape", _mat_dims, _mat_build, near=_mat_near, prune=_mat_prune),
           rule_ids=["materialize_reshape_shape_rule"])


# ---------------------------------------------------------------------------------------------------
# Min/Max chains: min_min, max_max -> one node; min_max (Max(Min)), max_min (Min(Max)) -> Clip
# ---------------------------------------------------------------------------------------------------
_MM_OPS = {"min_min_rule": ("Min", "Min"), "max_max_rule": ("Max", "Max"),
           "min_max_rule": ("Min", "Max"), "max_min_rule": ("Max", "Min")}
# (constants of the first node, constants of the second node)
_MM_VALS = {
    "ordered": ([-1.0], [2.0]), "inverted": ([2.0], [-1.0]), "equal": ([1.0], [1.0]),
    "two-first": ([-1.0, 0.5], [2.0]), "two-second": ([-1.0], [2.0, 3.0]), "two-both-mixed": ([3.0, -2.0], [0.5, 4.0]),
    "none-second": ([-1.0], []), "none-first": ([], [2.0]),
    "nan-first": ([float("nan")], [2.0]), "inf": ([float("-inf")], [float("inf")]),
}


def _mm_dims(rule):
    return [
        Dim("vals", ["ordered", "inverted", "equal", "two-first", "two-second", "none-second"], list(_MM_VALS)),
        Dim("cshape", [[], [1], [1, 1], [3]], [[], [1], [1, 1], [3], [2, 1]]),
        Dim("cshape2", ["same", "scalar"]),
        Dim("xshape", [[3], [2, 3]], [[3], [2, 3], [], [1]]),
        Dim("xpos", ["first", "last"]),
        Dim("dtype", ["f32", "i64"]),
        Dim("dtype2", ["same", "f64", "i32", "f16"], cost=1),
        # a second chain on the same x with other constants in the same graph
        Dim("twin", ["no", "yes"], cost=1),
        S.d_ck(2), S.d_inter(1), S.D_DIMS, S.D_VI, S.d_opset(18, 13, 21, 23),
    ]


def _mm_prune(p, rule):
    dt = p["dtype"] if p["dtype2"] == "same" else p["dtype2"]
    if not S.is_float(dt) and p["vals"] in ("nan-first", "inf"):
        return True
    if p["dtype2"] != "same" and p["dtype"] != "f32":
        return True
    if p["dims"] != "static" and not p["xshape"]:
        return True
    if p["cshape2"] == "scalar" and p["cshape"] == []:
        return True
    return False


def _mm_build(p, rule):
    op1, op2 = _MM_OPS[rule["id"]]
    dt = p["dtype"] if p["dtype2"] == "same" else p["dtype2"]
    mb = MB(p["opset"])
    xs = p["xshape"]
    x = mb.inp("x", dt, S.shp(p, xs))
    S.bind_like(mb, xs, variants=[{"N": 1, "?0": 1}] if xs else None)
    v1, v2 = _MM_VALS[p["vals"]]
    k = S.kinds(p, 2)
    cs = p["cshape"]

    def mk(v, i, kind, shape):
        a = np.full(shape, v, dtype=S.npd(dt))
        if shape == [3]:
            a = a + np.array([0, 1, -1], dtype=S.npd(dt))
        if shape == [2, 1]:
            a = a + np.array([[0], [1]], dtype=S.npd(dt))
        return mb.const(a, kind, alts=[a + S.npd(dt)(4), a])
    c1 = [mk(v, i, k[0] if i == 0 else "init", cs) for i, v in enumerate(v1)]
    cs2 = [] if p["cshape2"] == "scalar" else cs
    c2 = [mk(v, i, k[1] if i == 0 else "init", cs2) for i, v in enumerate(v2)]
    ins1 = [x] + c1 if p["xpos"] == "first" else c1 + [x]
    o1 = mb.node(op1, ins1)
    o2 = mb.node(op2, [o1] + c2)
    mb.out(o2)
    if p["twin"] == "yes":
        t1 = mb.node(op1, [x] + [mk(v + 7, i, "init", cs) for i, v in enumerate(v1)])
        mb.out(mb.node(op2, [t1] + [mk(v + 9, i, "init", cs2) for i, v in enumerate(v2)]))
    S.expose(mb, p, [o1])
    mb.special_feed = S.is_float(dt)
    return mb


def _mm_near(p, rule):
    clip = rule["id"] in ("min_max_rule", "max_min_rule")
    return S.is_nonconst(p) or (p["xpos"] == "last" and _MM_VALS[p["vals"]][0] != []) \
        or (clip and p["cshape"] in ([3], [2, 1])) or (rule["id"] == "min_max_rule" and p["vals"] == "inverted")


def _mm_klass(nd, p, rule):
    if "twin" in nd and set(nd) <= {"twin", "vals"}:
        return "twin=second-chain-on-same-input"
    if "cshape" in nd and rule["id"] in ("min_max_rule", "max_min_rule") \
            and set(nd) <= {"cshape", "vals", "cshape2", "xshape", "xpos", "twin"}:
        if len(nd["cshape"]) > len(p["xshape"]):
            return "cshape=singleton-of-rank>x-rank"
        return "cshape=" + str(nd["cshape"]).replace(" ", "")
    return None


S.register(Space("min_max", _mm_dims, _mm_build, near=_mm_near, prune=_mm_prune, klass=_mm_klass, max_dev={"thorough": 1}),
           rule_ids=list(_MM_OPS))


# ---------------------------------------------------------------------------------------------------
# Relu/Clip chains
# ---------------------------------------------------------------------------------------------------
_CL_MIN = {"absent": None, "neg": -2.0, "zero": 0.0, "pos": 1.5, "above": 5.0}
_CL_MAX = {"absent": None, "neg": -1.0, "zero": 0.0, "pos": 3.0}


def _rc_dims(rule):
    rid = rule["id"]
    d = []
    if rid != "successive_relu_rule":
        d += [Dim("min1", ["absent", "neg", "pos", "above"], list(_CL_MIN)),
              Dim("max1", ["absent", "neg", "pos"], list(_CL_MAX))]
    if rid == "successive_clip_rule":
        d += [Dim("min2", ["absent", "neg", "pos", "above"], list(_CL_MIN)),
              Dim("max2", ["absent", "neg", "pos"], list(_CL_MAX))]
    d += [Dim("dtype", ["f32", "i64"]),
          Dim("dtype2", ["same", "f64", "i32", "f16"], cost=1),
          Dim("cshape", [[], [1]], cost=1),
          # a second chain on the same x with other bounds in the same graph
          Dim("twin", ["no", "yes"], cost=1),
          S.d_ck({"successive_relu_rule": 0, "successive_clip_rule": 4}.get(rid, 2)), S.d_inter(1), S.D_DIMS, S.D_VI,
          S.d_opset(18, 13, 21, 23)]
    return d


def _rc_prune(p, rule):
    return p["dtype2"] != "same" and p["dtype"] != "f32"


def _clip(mb, x, mn, mx, dt, kinds2, cshape, alts=True):
    ins = [x]
    d = S.npd(dt)
    a = None if mn is None else mb.const(np.full(cshape, mn, dtype=d), kinds2[0], alts=[np.full(cshape, mn + 1, dtype=d)])
    b = None if mx is None else mb.const(np.full(cshape, mx, dtype=d), kinds2[1], alts=[np.full(cshape, mx + 2, dtype=d)])
    ins += [a, b]
    while ins[-1] is None:
        ins.pop()
    return mb.node("Clip", ins)


def _rc_build(p, rule):
    rid = rule["id"]
    dt = p["dtype"] if p["dtype2"] == "same" else p["dtype2"]
    mb = MB(p["opset"])
    x = mb.inp("x", dt, S.shp(p, [2, 3]))
    S.bind_like(mb, [2, 3], variants=[{"N": 1, "?0": 1}])
    mb.special_feed = S.is_float(dt)
    cs = p["cshape"]
    if rid == "successive_relu_rule":
        r1 = mb.node("Relu", [x])
        mb.out(mb.node("Relu", [r1]))
        S.expose(mb, p, [r1])
        return mb
    k = S.kinds(p, 4)
    mn1, mx1 = _CL_MIN[p["min1"]], _CL_MAX[p["max1"]]
    if rid == "successive_clip_relu_rule":
        r = mb.node("Relu", [x])
        y = _clip(mb, r, mn1, mx1, dt, k[:2], cs)
        inter = r
    elif rid == "successive_relu_clip_rule":
        c = _clip(mb, x, mn1, mx1, dt, k[:2], cs)
        y = mb.node("Relu", [c])
        inter = c
    else:
        c = _clip(mb, x, mn1, mx1, dt, k[:2], cs)
        y = _clip(mb, c, _CL_MIN[p["min2"]], _CL_MAX[p["max2"]], dt, k[2:], cs)
        inter = c
    mb.out(y)
    if p["twin"] == "yes":
        # same structure, bounds shifted by +0.5 / +1 (the rule names its new initializers after x)
        sh = lambda v, dlt: None if v is None else v + dlt  # noqa: E731
        ii = ["init"] * 4
        if rid == "successive_clip_relu_rule":
            mb.out(_clip(mb, mb.node("Relu", [x]), sh(mn1, 1), sh(mx1, 1), dt, ii[:2], cs))
        elif rid == "successive_relu_clip_rule":
            mb.out(mb.node("Relu", [_clip(mb, x, sh(mn1, 1), sh(mx1, 1), dt, ii[:2], cs)]))
        else:
            c2 = _clip(mb, x, sh(mn1, 1), sh(mx1, 1), dt, ii[:2], cs)
            mb.out(_clip(mb, c2, sh(_CL_MIN[p["min2"]], 1), sh(_CL_MAX[p["max2"]], 1), dt, ii[2:], cs))
    S.expose(mb, p, [inter])
    return mb


def _rc_near(p, rule):
    return S.is_nonconst(p)


def _rc_klass(nd, p, rule):
    if "twin" in nd and set(nd) <= {"twin", "min1", "max1", "min2", "max2"}:
        return "twin=second-chain-on-same-input"
    if rule["id"] == "successive_clip_rule" and set(nd) <= {"min1", "max1", "min2", "max2"}:
        mx1, mn2 = _CL_MAX[p["max1"]], _CL_MIN[p["min2"]]
        if mx1 is not None and mn2 is not None and mn2 > mx1:
            return "min2>max1"
    return None


S.register(Space("relu_clip", _rc_dims, _rc_build, near=_rc_near, prune=_rc_prune, klass=_rc_klass, max_dev={"thorough": 1}),
           rule_ids=["successive_clip_relu_rule", "successive_relu_clip_rule", "successive_relu_rule",
                     "successive_clip_rule"])
