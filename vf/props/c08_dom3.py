"""C08 argument domains, part 3: pooling, convolution, reflection/replication pad.

Same conventions as c08_dom / c08_dom2: the driver walks the ATen schema of the overload; each argument gets a
finite menu (determined by its name and the spatial rank of the overload) that is enumerated completely;
arguments with a schema default also get the entry "omit"; torch decides which tuples are in the operator's
domain (a tuple torch refuses is counted as skipped).  The quick tier uses a prefix of every thorough menu,
so quick cases are a subset of thorough cases.

What is not registered in torchlib cannot be traced per overload: adaptive_avg_pool* is decomposed by
torch.export before torchlib sees it and conv_transpose* reaches torchlib as aten::convolution(transposed=True);
both are covered (a) through aten::convolution here and (b) end to end in c08_e2e (thorough).
"""
from __future__ import annotations

from vf import explore
from vf.props.c08_dom import L, OMIT, S, T, fs
from vf.props.c08_dom import schema
from vf.props.c08_dom2 import _lst, _numel, _put


def _q(c):
    return c.cfg["tier"] == "quick"


def _menu(c, thorough, quick_n):
    """quick = the first quick_n entries of the thorough menu"""
    return thorough[:quick_n] if _q(c) else thorough


def _pick_list(c, name, has_def, values, quick_n):
    vals = _menu(c, values, quick_n)
    menu = ([("omit", OMIT)] if has_def else []) + [(_lst(v), v) for v in vals]
    return c.pick(name, menu)


def _pick_flag(c, name, has_def, first, explicit_default):
    """bool argument: omitted / the non-default value / (explicit_default) the default value given explicitly.
    The explicit default is left out where a later argument's menu already forces it: binding through the
    schema fills the gap before a given later argument with the schema default."""
    menu = ([("omit", OMIT)] if has_def else []) + [(str(first), first)]
    if explicit_default or not has_def:
        menu.append((str(not first), not first))
    return c.pick(name, menu)


def _spatial_rank(op):
    base = op.split("::")[1].split(".")[0]
    for k in (1, 2, 3):
        if f"{k}d" in base:
            return k
    return None


# ------------------------------------------------------------------------------------------------
# family 10: pooling
# ------------------------------------------------------------------------------------------------

POOL = ["avg_pool1d", "avg_pool2d", "avg_pool3d", "max_pool1d", "max_pool2d", "max_pool3d",
        "max_pool1d_with_indices", "max_pool2d_with_indices", "max_pool3d_with_indices"]

# (thorough menu, number of leading entries used by quick)
_POOL = {
    1: {"shape": ([(1, 2, 5), (2, 5), (2, 1, 6), (0, 2, 5)], 2),
        "kernel_size": ([[2], [3], [1], [5]], 2),
        "stride": ([[1], [2], [3]], 2),
        "padding": ([[1], [0], [2]], 1),
        "dilation": ([[2], [1]], 1)},
    2: {"shape": ([(1, 2, 5, 6), (2, 5, 6), (2, 1, 4, 4), (0, 2, 5, 6)], 2),
        "kernel_size": ([[2, 2], [3, 2], [2], [1, 3], [3, 3]], 3),
        "stride": ([[1, 1], [2, 1], [2], [2, 2]], 2),
        "padding": ([[1, 1], [0, 1], [1], [0, 0]], 2),
        "dilation": ([[2, 1], [2], [1, 1]], 1)},
    3: {"shape": ([(1, 1, 3, 4, 4), (1, 3, 4, 4)], 1),
        "kernel_size": ([[2, 2, 2], [1, 2, 2], [2]], 1),
        "stride": ([[1, 1, 1], [2, 1, 2]], 1),
        "padding": ([[1, 0, 1], [1]], 1),
        "dilation": ([[1, 2, 1]], 1)},
}
_POOL_DT = (["f32", "u8", "f64", "f16"], 2)


def _note_pool(c, sh, k, s, p, d, ceil):
    """derived (not chosen) features of a pooling case, so that a finding class can name the mechanism instead
    of listing argument tuples: `padded` - is there padding; `ceil-win` - what ceil_mode adds on some axis:
    nothing / a partial window that overlaps the input / a window that starts inside the right padding (torch
    drops such a window)"""
    r = c.meta["srank"]

    def ex(v, dflt):
        if v is OMIT or v is None or v == []:
            return list(dflt)
        return list(v) * r if len(v) == 1 else list(v)
    kk = ex(k, [1] * r)
    if len(kk) != r:
        return
    ss = ex(s, kk)
    pp = ex(p, [0] * r)
    dd = ex(d, [1] * r)
    if not (len(ss) == len(pp) == len(dd) == r) or len(sh) < r:
        return
    c.f["padded"] = "yes" if any(pp) else "no"
    win = "none"
    for i in range(r):
        size = sh[len(sh) - r + i]
        eff = dd[i] * (kk[i] - 1) + 1
        num = size + 2 * pp[i] - eff
        if num < 0 or ss[i] <= 0:
            return
        if ceil is True and num % ss[i] != 0:
            last_start = (num // ss[i] + 1) * ss[i]
            if last_start >= size + pp[i]:
                win = "in-pad"
            elif win == "none":
                win = "partial"
    c.f["ceil-win"] = win


def fam_pool(c):
    sch = schema(c.op)
    r = _spatial_rank(c.op)
    c.meta["srank"] = r
    m = _POOL[r]
    is_max = "max_pool" in c.op
    sh = None
    got = {}
    for (name, ty, kwo, has_def) in sch:
        if ty == "Tensor":
            sh = c.shape(shapes=_menu(c, *m["shape"]))
            dts = _menu(c, *_POOL_DT)
            if _q(c) and not is_max:
                dts = dts[:1]  # avg_pool has no uint8 kernel in torch
            dt = c.pick("dtype", [(d, d) for d in dts])
            # max: distinct values, so that the index output does not depend on tie-breaking
            c.g[name] = T(sh, dt, "w" if is_max else "v")
        elif name in ("kernel_size", "stride", "padding", "dilation"):
            v = _pick_list(c, name, has_def, *m[name])
            got[name] = v
            _put(c, name, v)
        elif name in ("ceil_mode", "count_include_pad"):
            # max_pool*: ceil_mode is the last argument; avg_pool*: divisor_override=None follows both flags
            v = _pick_flag(c, name, has_def, name == "ceil_mode", explicit_default=is_max or r == 1)
            got[name] = v
            _put(c, name, v)
        elif name == "divisor_override":
            # 5 is the element count of no window of the domain (counts are products of 1..3), so that a
            # divisor that is ignored cannot agree by coincidence
            v = c.pick(name, [("omit", OMIT), ("None", None)] + ([] if _q(c) else [("5", 5)]))
            _put(c, name, v)
        elif not has_def:
            raise AssertionError(f"{c.op}: no menu for required argument {name}: {ty}")
    _note_pool(c, sh, got.get("kernel_size"), got.get("stride", OMIT), got.get("padding", OMIT),
               got.get("dilation", OMIT), got.get("ceil_mode", OMIT))
    return c.case()


# ------------------------------------------------------------------------------------------------
# family 11: convolution (conv1d/2d/3d, convolution incl. transposed)
# ------------------------------------------------------------------------------------------------

CONV = ["conv1d", "conv2d", "conv3d", "convolution"]

_CONV = {
    1: {"input": ([(1, 2, 5), (2, 5), (1, 4, 5), (0, 2, 5)], 2),
        "weight": ([(2, 2, 2), (3, 2, 3), (4, 1, 2), (2, 1, 3), (4, 2, 1), (2, 4, 2)], 3),
        "stride": ([[2], [1]], 1),
        "padding": ([[1], [0], [2]], 1),
        "dilation": ([[2], [1]], 1),
        "output_padding": ([[0], [1]], 2)},
    2: {"input": ([(1, 2, 4, 5), (2, 4, 5), (1, 4, 4, 5), (0, 2, 4, 5)], 2),
        "weight": ([(2, 2, 2, 3), (3, 2, 1, 1), (4, 1, 2, 2), (2, 1, 3, 2), (4, 2, 2, 1), (2, 4, 2, 2)], 3),
        "stride": ([[2, 1], [2], [1, 1]], 1),
        "padding": ([[1, 2], [1], [0, 0]], 1),
        "dilation": ([[1, 2], [2], [1, 1]], 1),
        "output_padding": ([[0, 0], [1, 0], [0]], 2)},
    3: {"input": ([(1, 2, 3, 3, 4), (2, 3, 3, 4)], 1),
        "weight": ([(2, 2, 2, 1, 2), (2, 1, 1, 2, 2)], 1),
        "stride": ([[1, 2, 1], [2]], 1),
        "padding": ([[1, 0, 1], [1]], 1),
        "dilation": ([[1, 1, 2], [2]], 1),
        "output_padding": ([[0, 0, 0]], 1)},
}
_CONV_DT = (["f32", "f64", "f16"], 1)


def fam_conv(c):
    sch = schema(c.op)
    base = c.op.split("::")[1]
    r = _spatial_rank(c.op)
    if r is None:  # aten::convolution: the spatial rank is a dimension of the domain
        r = c.pick("nd", [("1", 1), ("2", 2)])
    m = _CONV[r]
    generic = base == "convolution"
    dt = wsh = None
    bias_name = bias_kind = None
    transposed = False
    groups = 1
    for (name, ty, kwo, has_def) in sch:
        if name == "input":
            ins = _menu(c, *m["input"])
            if generic:
                ins = [s for s in ins if len(s) == r + 2]  # aten::convolution takes batched input only
            sh = c.pick("shape", [(fs(s), s) for s in ins])
            dt = c.pick("dtype", [(d, d) for d in _menu(c, *_CONV_DT)])
            c.g[name] = T(sh, dt, "v")
        elif name == "weight":
            wsh = c.pick("weight", [(fs(s), s) for s in _menu(c, *m["weight"])])
            c.g[name] = T(wsh, dt, "v")
        elif name == "bias":
            bias_name = name
            # with a schema default an explicit None arises from gap filling whenever a later argument is given
            menu = [("omit", OMIT), ("given", "given")] if has_def else [("None", None), ("given", "given")]
            bias_kind = c.pick("bias", menu)
            c.g[name] = None  # placeholder keeps the schema order; filled below
        elif name in ("stride", "padding", "dilation", "output_padding"):
            _put(c, name, _pick_list(c, name, has_def, *m[name]))
        elif name == "transposed":
            transposed = c.pick(name, [("False", False), ("True", True)])
            _put(c, name, transposed)
        elif name == "groups":
            v = c.pick(name, ([("omit", OMIT)] if has_def else []) + [("1", 1), ("2", 2)])
            groups = 1 if v is OMIT else v
            _put(c, name, v)
        elif not has_def:
            raise AssertionError(f"{c.op}: no menu for required argument {name}: {ty}")
    if bias_kind is None:
        c.g[bias_name] = ["N"]
    elif bias_kind == "given":
        cout = wsh[1] * groups if transposed else wsh[0]
        c.g[bias_name] = T((cout,), dt, "b")
    c.g = {k: v for k, v in c.g.items() if v is not None}
    return c.case()


# ------------------------------------------------------------------------------------------------
# family 12: reflection / replication pad
# ------------------------------------------------------------------------------------------------

PADND = ["reflection_pad1d", "reflection_pad2d", "reflection_pad3d", "replication_pad1d", "replication_pad2d",
         "replication_pad3d"]

_PADND = {
    1: {"shape": ([(2, 5), (1, 2, 5), (0, 2, 5), (2, 1), (5,)], 2),
        "padding": ([[1, 1], [0, 2], [0, 0], [2, 0], [4, 4], [-1, 1], [1, -2], [5, 0]], 3)},
    2: {"shape": ([(2, 4, 5), (1, 2, 4, 5), (0, 2, 4, 5), (1, 3, 3)], 2),
        "padding": ([[1, 1, 1, 1], [0, 2, 1, 0], [0, 0, 0, 0], [-1, 1, 0, 2], [3, 3, 3, 3], [0, 0, 0, -1]], 3)},
    3: {"shape": ([(1, 3, 3, 4), (1, 1, 3, 3, 4)], 1),
        "padding": ([[1, 1, 1, 1, 1, 1], [0, 1, 2, 0, 1, 0], [0, 0, 0, 0, 0, 0], [-1, 0, 0, 1, 0, 0]], 2)},
}
_PADND_DT = (["f32", "i64", "bool", "f16", "f64", "i32", "u8"], 3)


def fam_padnd(c):
    sch = schema(c.op)
    r = _spatial_rank(c.op)
    m = _PADND[r]
    for (name, ty, kwo, has_def) in sch:
        if ty == "Tensor":
            sh = c.shape(shapes=_menu(c, *m["shape"]))
            dt = c.pick("dtype", [(d, d) for d in _menu(c, *_PADND_DT)])
            c.g[name] = T(sh, dt, "a")
        elif name == "padding":
            _put(c, name, _pick_list(c, name, has_def, *m["padding"]))
        elif not has_def:
            raise AssertionError(f"{c.op}: no menu for required argument {name}: {ty}")
    return c.case()


FAMILIES3 = [
    ("pool", fam_pool, ["aten::" + n for n in POOL]),
    ("conv", fam_conv, ["aten::" + n for n in CONV]),
    ("padnd", fam_padnd, ["aten::" + n for n in PADND]),
]
QUICK_FAMILIES3 = ("pool", "conv", "padnd")
