"""C04 - optimize() is total on valid models; the result is valid and keeps the interface.

Same executions as C03 (``vf.optplan.run_item`` computes both properties' observations in one run); this module
reports: exceptions escaping the API on a checker-valid model that executes, checker/walker problems of the
result that the original does not have, changed graph inputs/outputs (names, order, element type, rank, static
dims), an initializer-input that lost its default or stopped being an input, declared output shapes contradicted
by what the result returns, and - for every overridable initializer-input - a changed answer when the caller
overrides it.
"""
from __future__ import annotations

from vf import mz, optplan, optrun, runeq
from vf.props import c03 as _c03

ID = "C04"
LEVEL = "model_checking"
RULE = ("the C03 enumeration (single nodes with every operand in turn bound to an initializer-that-is-also-an-input "
        "and two override values, pairs, rule pairs, shape triples, templates, lifted corpus, wrapped_folded / single_cform / "
        "regpair_old families: see C03); a leaf is non-trivial "
        "when the optimizer API was called on a checker-valid model that executes and its result was validated "
        "(checker full_check + independent scope walker + interface diff + override runs)")
ASSUMPTIONS = ["onnx.checker.check_model(full_check=True) (onnx 1.22) and vf.wf decide validity",
               "'executes' (precondition of totality) = onnxruntime runs the model; onnx.reference is not required for it "
               "(it lacks sparse constants and some ops), it is required for every value comparison",
               "an override value is used only when ORT and onnx.reference agree on the ORIGINAL with that override",
               "shape refinements of declared outputs (symbolic -> static) are counted, and alarmed on only when the "
               "refined static dim contradicts the runtime shape"]


# rewrite() with user rules is part of the statement ("optimize, rewrite and fold_constants ... every domain used has an
# opset import"): the C07 enumeration (18 generated rules - among them a replacement in a domain the host does not
# import, replacement initializers, as_function extraction - x hosts with k<=3 instances in main graph / If / Loop /
# function bodies) is executed here too and judged for totality, validity and interface only.
_RW_KINDS = {"raised": "raises", "invalid-checker": "invalid", "invalid-wf": "invalid", "signature": "interface"}


def plan(tier, seed):
    from vf.props import c07 as _c07
    items, st = optplan.plan_c03(tier)
    rw, st7 = _c07.plan(tier, seed)
    items = items + [{"fam": "rw_rule", "c07": it} for it in rw]
    st = dict(st)
    for k in ("states", "transitions", "leaves"):
        if k in st and k in st7:
            st[k] = st[k] + st7[k]
    st["rw_rule_leaves"] = len(rw)
    st["rw_rule_dimensions"] = st7.get("dimensions")
    return items, st


def _execute_rw(item):
    from vf.props import c07 as _c07
    r = _c07.execute(item["c07"])
    out = {"nkey": "rw_rule|" + str(r.get("nkey")), "counts": {"rw_rule_api_runs": (r.get("counts") or {}).get("api_runs", 0)}}
    if r["status"] == "skip":
        out.update(status="skip", skip="rw:" + r["skip"], outcome="rw-skip")
        return out
    viols = []
    for v in r.get("viols", []):
        _, kind, rule, place = v["key"].split("|", 3)
        if kind in _RW_KINDS:
            viols.append({"key": f"C04|rewrite-{_RW_KINDS[kind]}|{rule}|{place}", "detail": v["detail"]})
    fired = str(r.get("outcome", "")).startswith(("fired", "viol"))
    out["outcome"] = ("rw-viol:" + "+".join(sorted({v["key"].split("|")[1] for v in viols}))) if viols else \
        ("rw-valid-changed" if fired else "rw-valid-unchanged")
    out["status"] = "viol" if viols else "ok"
    out["viols"] = viols
    out["show"] = r.get("show", "")[:700]
    return out


worker_init = _c03.worker_init
def on_crash(item, res):
    if item.get("fam") == "rw_rule":
        return None
    return _c03._crash_triage(item, "vf.props.c04")


def _override_component(item, built, name):
    """<Op>.<role> of the operand that is the overridable initializer ``name``."""
    if name == "cond":
        return "If.cond"
    if item.get("fam") == "corpus":
        return "corpus-input"
    spec = optplan.item_spec(item)
    # mz names constants k<N> in emission order; recover op/role by rebuilding the order
    n = 0
    for idx, nd in enumerate(spec["nodes"]):
        for pos, r in enumerate(nd["i"]):
            if r is not None and "c" in r:
                if f"k{n}" == name:
                    role = f"in{pos}"
                    if "steps" in item:
                        c = mz.BY_ID[item["steps"][idx]["cfg"]]
                        if pos in c.pooled:
                            role = c.roles[c.pooled.index(pos)]
                        elif c.ops[pos] == "P":
                            role = "primary"
                    return f"{nd['op']}.{role}"
                n += 1
    return "?"


def execute(item):
    if item.get("fam") == "rw_rule":
        return _execute_rw(item)
    _c03.watchdog(True)
    try:
        return _execute(item)
    finally:
        _c03.watchdog(False)


def _still_bad(kind, v, built):
    """Predicate 'the same problem shows on this transformed model' used for attribution."""
    model = built.model
    if kind == "invalid":
        return lambda m2: any(optrun._classify_validity(p) == v["param"] for p in optrun.validity_problems(m2))
    if kind == "interface":
        return lambda m2: any(p.split(":")[0] == v["param"] for p in optrun.compare_interface(model, m2)[0])
    if kind == "declared-shape-wrong":
        return None
    if kind == "default-lost":
        name = v["name"]

        def lost(m2):
            ins = {x.name for x in m2.graph.input}
            inits = {x.name for x in m2.graph.initializer}
            return (name in ins and name not in inits) or name not in ins
        return lost
    if kind == "override":
        feeds, exp = v["feeds"], v["expected"]

        def differs(m2):
            try:
                got = optrun.Sess(m2).run(feeds)
            except runeq.RunError as e:
                return "Required inputs" not in e.msg
            return runeq.compare(exp, got) is not None
        return differs
    return None


def _execute(item):
    built, rec = optplan.run_item(item)
    counts = dict(rec.get("counts") or {})
    label = optplan.item_label(item)
    out = {"counts": counts, "nkey": label + "|" + _c03._short(item)}
    if rec.get("skip") and not rec.get("c04") and not rec.get("validated"):
        out.update(status="skip", skip=rec["skip"], outcome="skip:" + rec["skip"].split(":")[0])
        return out
    viols = []
    seen = set()
    api = item.get("api", "optimize")
    for v in rec.get("c04", []):
        kind = v["kind"]
        if kind == "raises":
            key_api = api
            if (api != "optimize" or item.get("entry", "proto") != "proto") and item.get("fam") != "corpus":
                # canonical API of the key: the same exception class out of optimize(ModelProto) => one root cause
                it2 = dict(item, api="optimize", entry="proto")
                _, r2 = optplan.run_item(it2)
                if any(x["kind"] == "raises" and x["param"] == v["param"] for x in r2.get("c04", [])):
                    key_api = "optimize"
            key = f"C04|raises|{key_api}|{v['param']}"
        else:
            b_use, item_use = built, item
            if kind in ("invalid", "interface", "declared-shape-wrong") and ("steps" in item):
                # canonical form of the case: greedy reset of everything that is not needed for this kind of problem
                def same_kind(it, kind=kind):
                    b2, r2 = optplan.run_item(it)
                    return any(x["kind"] == kind for x in r2.get("c04", []))
                small = optplan.minimise_item(item, same_kind)
                if small is not item:
                    b2, r2 = optplan.run_item(small)
                    cand = [x for x in r2.get("c04", []) if x["kind"] == kind]
                    if cand:
                        b_use, item_use, v = b2, small, cand[0]
                        rec = dict(rec)
                        rec["diff"] = r2.get("diff")
            built_for_attr = b_use
            pred = _still_bad(kind, v, built_for_attr)
            comp, dsig = (api, None)
            if pred is not None:
                comp, dsig = optrun.attribute(built_for_attr.model, item_use.get("api", "optimize"), item_use.get("opts"),
                                              item_use.get("entry"), pred)
            if dsig is None:
                dsig = rec.get("diff") or ""
            if kind == "override":
                role = _override_component(item, built, v.get("name"))
                key = f"C04|override|{comp}|{role.split('.')[0]}"   # consumer op of the overridable operand
            elif kind == "default-lost":
                key = f"C04|default-lost|{comp}|{v['param']}"
            elif optplan.root_cause_tag(item_use, comp, dsig, v.get("param")):
                key = (f"C04|{kind}|{comp if str(comp).startswith('rule:') else 'fold'}|"
                       f"{optplan.root_cause_tag(item_use, comp, dsig, v.get('param'))}")
            else:
                key = f"C04|{kind}|{comp}|{dsig}|{v['param']}"
                extra = [x for x in optplan.nondefault_params(item_use, set())
                         if x.startswith(("x=", "wrap=", "opset=", "cform=", "outs="))]
                if extra:
                    key += "|" + ",".join(extra)
        if key in seen:
            continue
        seen.add(key)
        viols.append({"key": key, "detail": {"case": label, "item": _c03._short(item), "what": v.get("detail"),
                                             "diff": rec.get("diff"), "operand": v.get("name")}})
    if rec.get("raised"):
        outcome = "raised"
    elif rec.get("diff"):
        outcome = ("valid-changed:" if not viols else "viol-changed:") + rec["diff"][:60]
    else:
        outcome = "valid-unchanged" if not viols else "viol-unchanged"
    out["outcome"] = outcome
    out["status"] = "viol" if viols else "ok"
    out["viols"] = viols
    if rec.get("opt") is not None:
        out["show"] = mz.render(rec["opt"], 700)
    counts["models_with_overridable_initializer"] = 1 if (built is not None and built.init_in) else 0
    return out


def _default_lost_name(v):
    return (v.get("detail") or "").split(" ")[0]


def summarize(items, results, tier):
    import collections
    fam = collections.Counter()
    for it, r in zip(items, results):
        if r.get("status") in ("ok", "viol"):
            fam[it.get("fam")] += 1
    return {"validated_by_family": dict(fam)}
