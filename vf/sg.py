"""sg - generator of ONNX Script programs with an AST of its own, a renderer and a numpy interpreter.

Nothing in this file looks at what onnxscript produces.  The interpreter implements "the source read as
ordinary Python control flow over tensors, every operator / op call denoting the ONNX operator it is
documented to map to"; the operator semantics are written from the ONNX operator documentation
(onnx.defs schema docs, opset 18) with numpy.

AST (JSON-serialisable nested lists)
  expr  ["var", name] | ["lit", pyvalue] | ["attr", name] | ["bin", sym, e1, e2] | ["neg", e]
        | ["call", OpName, [args...], [[attrname, aval]...]]     aval = ["py", v] | ["ref", attrparam]
        | ["fcall", fname, [args...], [[kw, aval_or_expr]...]]   call of another script function
        | ["none"]                                               omitted optional input
        arg of call may be ["kw", name, expr] (keyword-passed input)
  stmt  ["assign", target, expr] | ["massign", [targets], callexpr] | ["passign", [targets], [exprs]]
        | ["if", condexpr, then_block, else_block]
        | ["for", ivar, rangeexpr, body, brk]      brk = None | name  (trailing ``if <name>: break``)
        | ["while", cvar, body, brk]
        | ["raw", [lines]]                          (mutants only: rendered verbatim)
        | ["def", name, [params], body, retexprs]   (mutants only: nested function)
        | ["return", [exprs]]                       (mutants only: return inside control flow)
  prog  {"name", "params": [[name, kind]], "attrs": [[name, ty, default|None]], "body": [stmt],
         "ret": [expr], "rkinds": [kind], "helpers": [prog]}
        kind: "F" FLOAT tensor, "I" INT64 tensor, "B" BOOL tensor, "I0"/"B0"/"F0" rank-0
"""
from __future__ import annotations

import math

import numpy as np

F, I, B = "f", "i", "b"
NP = {F: np.float32, I: np.int64, B: np.bool_}
ONNX_ELEM = {F: 1, I: 7, B: 9}
KIND_DT = {"F": F, "I": I, "B": B, "F0": F, "I0": I, "B0": B}
KIND_ANN = {"F": "FLOAT", "I": "INT64", "B": "BOOL", "F0": "FLOAT", "I0": "INT64", "B0": "BOOL"}


class Undefined(Exception):
    """The plain reading gives no value here (ill-typed, unbound name, shape error, behaviour the ONNX
    documentation leaves open).  Nothing is concluded for such a (program, input)."""

    def __init__(self, reason):
        super().__init__(reason)
        self.reason = reason


class Poly:
    """A python literal / attribute parameter in operand position: takes the type of the sibling operands."""

    __slots__ = ("v",)

    def __init__(self, v):
        self.v = v


def dt_of(a):
    if a.dtype == np.float32:
        return F
    if a.dtype == np.int64:
        return I
    if a.dtype == np.bool_:
        return B
    raise Undefined(f"dtype {a.dtype}")


def natural_dt(v):
    if isinstance(v, list):
        if not v:
            raise Undefined("empty list literal")
        return natural_dt(v[0])
    if isinstance(v, bool):
        return B
    if isinstance(v, int):
        return I
    if isinstance(v, float):
        return F
    raise Undefined(f"literal {v!r}")


def poly_to(p, dt):
    """Promote literal to dtype dt (tutorial: 'CastLike(2, X)'): value conversion as Cast."""
    v = p.v
    flat = v if isinstance(v, list) else [v]
    if dt == I:
        for e in flat:
            if isinstance(e, float) and (math.isnan(e) or math.isinf(e) or abs(e) >= 2 ** 62):
                raise Undefined("literal float->int out of range")
        conv = [int(e) for e in flat]  # truncation toward zero
    elif dt == F:
        conv = [float(e) for e in flat]
    else:
        conv = [bool(e) for e in flat]
    return np.array(conv if isinstance(v, list) else conv[0], dtype=NP[dt])


# ------------------------------------------------------------------------------------------------
# Operator table.  sig: list of (typevar, allowed dtypes, mode) mode in "1" single, "?" optional, "*" variadic
# ------------------------------------------------------------------------------------------------

NUM = (F, I)
ANY = (F, I, B)


def _bc(*arrs):
    try:
        return np.broadcast_arrays(*arrs)
    except ValueError:
        raise Undefined("broadcast") from None


def _has_nan(*arrs):
    return any(a.dtype == np.float32 and np.isnan(a).any() for a in arrs)


def _add(a, at):
    x, y = _bc(*a)
    with np.errstate(all="ignore"):
        return [(x + y).astype(x.dtype)]


def _sub(a, at):
    x, y = _bc(*a)
    with np.errstate(all="ignore"):
        return [(x - y).astype(x.dtype)]


def _mul(a, at):
    x, y = _bc(*a)
    with np.errstate(all="ignore"):
        return [(x * y).astype(x.dtype)]


def _div(a, at):
    if a[1].dtype == np.int64 and (a[1] == 0).any():
        raise Undefined("integer division by zero")
    x, y = _bc(*a)
    if x.dtype == np.int64:
        if ((x == np.iinfo(np.int64).min) & (y == -1)).any():
            raise Undefined("integer overflow")
        q = np.abs(x) // np.abs(y)  # truncating division (Div doc, opset 14)
        return [(q * np.sign(x) * np.sign(y)).astype(np.int64)]
    with np.errstate(all="ignore"):
        return [(x / y).astype(np.float32)]


def _mod(a, at):
    if a[1].dtype == np.int64 and (a[1] == 0).any():
        raise Undefined("integer modulo by zero")
    x, y = _bc(*a)
    fmod = at.get("fmod", 0)
    if x.dtype == np.int64:
        if fmod:
            raise Undefined("fmod=1 on integers not used here")
        return [np.mod(x, y).astype(np.int64)]  # sign of the divisor (python %)
    if not fmod:
        raise Undefined("Mod on floating point requires fmod=1")
    if _has_nan(x, y) or np.isinf(a[0]).any() or (a[1] == 0).any() or ((a[0] == 0) & np.signbit(a[0])).any():
        # doc: for x = -0 either zero may be returned; inf / nan / zero divisor are "special cases": keep clear
        raise Undefined("fmod special case")
    with np.errstate(all="ignore"):
        return [np.fmod(x, y).astype(np.float32)]


def _pow(a, at):
    x, y = _bc(*a)
    if x.dtype == np.int64:
        if y.dtype != np.int64 or (y < 0).any() or (y > 16).any() or (np.abs(x) > 8).any():
            raise Undefined("integer power outside small exact range")
        return [np.power(x, y).astype(np.int64)]
    if _has_nan(x, y):
        raise Undefined("pow nan")
    with np.errstate(all="ignore"):
        r = np.power(x.astype(np.float64), y.astype(np.float64))
    if np.isnan(r).any() or np.isinf(r).any():
        raise Undefined("pow special value")
    return [r.astype(np.float32)]


def _cmp(fn):
    def run(a, at):
        x, y = _bc(*a)
        with np.errstate(all="ignore"):
            return [np.asarray(fn(x, y), dtype=np.bool_)]
    return run


def _logic(fn):
    def run(a, at):
        x, y = _bc(*a)
        return [np.asarray(fn(x, y), dtype=np.bool_)]
    return run


def _neg(a, at):
    return [(-a[0]).astype(a[0].dtype)]


def _abs(a, at):
    return [np.abs(a[0]).astype(a[0].dtype)]


def _identity(a, at):
    return [a[0].copy()]


def _not(a, at):
    return [np.logical_not(a[0])]


def _where(a, at):
    c, x, y = _bc(*a)
    return [np.where(c, x, y).astype(x.dtype)]


def _maxmin(fn):
    def run(a, at):
        if not a:
            raise Undefined("no inputs")
        if _has_nan(*a):
            raise Undefined("Max/Min with NaN unspecified")
        bs = _bc(*a)
        r = bs[0]
        for o in bs[1:]:
            r = fn(r, o)
        return [np.array(r, dtype=a[0].dtype)]
    return run


def _reducesum(a, at):
    x = a[0]
    axes = a[1] if len(a) > 1 else None
    keep = bool(at.get("keepdims", 1))
    noop = bool(at.get("noop_with_empty_axes", 0))
    if axes is None or axes.size == 0:
        if axes is not None and axes.ndim != 1:
            raise Undefined("axes must be 1-D")
        if noop:
            return [x.copy()]
        ax = None
    else:
        if axes.ndim != 1:
            raise Undefined("axes must be 1-D")
        if x.size == 0:
            raise Undefined("reduction along given axes of an empty tensor (runtimes differ)")
        ax = []
        for v in axes.tolist():
            if not -x.ndim <= v < x.ndim:
                raise Undefined("axis out of range")
            ax.append(v % x.ndim)
        if len(set(ax)) != len(ax):
            raise Undefined("duplicate axes")
        ax = tuple(ax)
    with np.errstate(all="ignore"):
        r = np.sum(x.astype(np.float64) if x.dtype == np.float32 else x, axis=ax, keepdims=keep)
    return [np.asarray(r).astype(x.dtype)]


def _cast_to(x, dt):
    if dt_of(x) == dt:
        return x.copy()
    if x.dtype == np.float32:
        if dt == I:
            if np.isnan(x).any() or np.isinf(x).any() or (np.abs(x) >= 2.0 ** 62).any():
                raise Undefined("float->int out of range is undefined (Cast doc)")
            return np.trunc(x).astype(np.int64)
        if np.isnan(x).any():
            raise Undefined("nan->bool")
        return x != 0
    if x.dtype == np.int64:
        if dt == F:
            return x.astype(np.float32)
        return x != 0
    return x.astype(NP[dt])


_ELEM2DT = {1: F, 7: I, 9: B}


def _cast(a, at):
    to = at.get("to")
    if to not in _ELEM2DT:
        raise Undefined("cast target outside f32/i64/bool")
    return [_cast_to(a[0], _ELEM2DT[to])]


def _castlike(a, at):
    return [_cast_to(a[0], dt_of(a[1]))]


def _clip(a, at):
    x = a[0]
    lo = a[1] if len(a) > 1 else None
    hi = a[2] if len(a) > 2 else None
    for b_ in (lo, hi):
        if b_ is not None and b_.ndim != 0:
            raise Undefined("Clip bounds must be scalars")
    if _has_nan(*[t for t in (x, lo, hi) if t is not None]):
        raise Undefined("Clip NaN")
    r = x
    if lo is not None:
        r = np.maximum(r, lo)
    if hi is not None:
        r = np.minimum(r, hi)  # Min(max, Max(input, min))
    return [np.asarray(r, dtype=x.dtype)]


def _axis(at, name, default, rank):
    ax = at.get(name, default)
    if not -rank <= ax < rank:
        raise Undefined("axis out of range")
    return ax % rank


def _split(a, at):
    x = a[0]
    if len(a) > 1 and a[1] is not None:
        raise Undefined("split input not modelled")
    n = at.get("num_outputs")
    if n is None or n < 1:
        raise Undefined("num_outputs required")
    if x.ndim == 0:
        raise Undefined("Split of a scalar")
    ax = _axis(at, "axis", 0, x.ndim)
    d = x.shape[ax]
    chunk = -(-d // n)  # equal sized parts, last chunk smaller
    outs = []
    for j in range(n):
        lo = min(j * chunk, d)
        hi = min((j + 1) * chunk, d)
        outs.append(np.take(x, np.arange(lo, hi), axis=ax).astype(x.dtype))
    if any(o.shape[ax] == 0 for o in outs):
        # the doc only says "the last chunk will be smaller"; an empty chunk is not covered (runtimes reject it)
        raise Undefined("split with an empty chunk")
    return outs


def _topk(a, at):
    x, k = a
    if k.ndim != 1 or k.size != 1:
        raise Undefined("K must be a 1-D tensor of size 1")
    if x.ndim == 0:
        raise Undefined("TopK of scalar")
    if _has_nan(x):
        raise Undefined("TopK NaN")
    kk = int(k[0])
    ax = _axis(at, "axis", -1, x.ndim)
    if kk < 0 or kk > x.shape[ax]:
        raise Undefined("K out of range")
    if not at.get("sorted", 1):
        raise Undefined("unsorted TopK order undefined")
    largest = bool(at.get("largest", 1))
    key = -x.astype(np.float64) if largest else x.astype(np.float64)
    if x.dtype == np.int64:
        key = -x if largest else x
    idx = np.argsort(key, axis=ax, kind="stable")  # ties: lower index first
    idx = np.take(idx, np.arange(kk), axis=ax)
    vals = np.take_along_axis(x, idx, axis=ax)
    return [vals.astype(x.dtype), idx.astype(np.int64)]


def _leakyrelu(a, at):
    x = a[0]
    alpha = np.float32(at.get("alpha", 0.01))
    with np.errstate(all="ignore"):
        return [np.where(x < 0, alpha * x, x).astype(np.float32)]


def _concat(a, at):
    if "axis" not in at:
        raise Undefined("axis required")
    if not a or a[0].ndim == 0:
        raise Undefined("Concat of scalars")
    ax = _axis(at, "axis", 0, a[0].ndim)
    for t in a[1:]:
        if t.ndim != a[0].ndim or any(s != r for j, (s, r) in enumerate(zip(t.shape, a[0].shape)) if j != ax):
            raise Undefined("Concat shape mismatch")
    return [np.concatenate(a, axis=ax).astype(a[0].dtype)]


def _shape(a, at):
    if "start" in at or "end" in at:
        raise Undefined("Shape start/end not modelled")
    return [np.array(a[0].shape, dtype=np.int64)]


def _out_same(dts, at):
    return [dts[0]]


def _out_bool(dts, at):
    return [B]


def _out_cast(dts, at):
    to = at.get("to")
    return [_ELEM2DT.get(to)]


OPS = {
    # name: (inputs signature, attrs allowed, out types fn, impl)
    "Add": ([("T", NUM, "1"), ("T", NUM, "1")], (), _out_same, _add),
    "Sub": ([("T", NUM, "1"), ("T", NUM, "1")], (), _out_same, _sub),
    "Mul": ([("T", NUM, "1"), ("T", NUM, "1")], (), _out_same, _mul),
    "Div": ([("T", NUM, "1"), ("T", NUM, "1")], (), _out_same, _div),
    "Mod": ([("T", NUM, "1"), ("T", NUM, "1")], ("fmod",), _out_same, _mod),
    "Pow": ([("T", NUM, "1"), ("T1", NUM, "1")], (), _out_same, _pow),
    "Equal": ([("T", ANY, "1"), ("T", ANY, "1")], (), _out_bool, _cmp(np.equal)),
    "Less": ([("T", NUM, "1"), ("T", NUM, "1")], (), _out_bool, _cmp(np.less)),
    "LessOrEqual": ([("T", NUM, "1"), ("T", NUM, "1")], (), _out_bool, _cmp(np.less_equal)),
    "Greater": ([("T", NUM, "1"), ("T", NUM, "1")], (), _out_bool, _cmp(np.greater)),
    "GreaterOrEqual": ([("T", NUM, "1"), ("T", NUM, "1")], (), _out_bool, _cmp(np.greater_equal)),
    "And": ([("T", (B,), "1"), ("T", (B,), "1")], (), _out_bool, _logic(np.logical_and)),
    "Or": ([("T", (B,), "1"), ("T", (B,), "1")], (), _out_bool, _logic(np.logical_or)),
    "Not": ([("T", (B,), "1")], (), _out_bool, _not),
    "Neg": ([("T", NUM, "1")], (), _out_same, _neg),
    "Abs": ([("T", NUM, "1")], (), _out_same, _abs),
    "Identity": ([("V", ANY, "1")], (), _out_same, _identity),
    "Where": ([("B", (B,), "1"), ("T", ANY, "1"), ("T", ANY, "1")], (), lambda d, at: [d[1]], _where),
    "Max": ([("T", NUM, "*")], (), _out_same, _maxmin(np.maximum)),
    "Min": ([("T", NUM, "*")], (), _out_same, _maxmin(np.minimum)),
    "ReduceSum": ([("T", NUM, "1"), ("(int64)", (I,), "?")], ("keepdims", "noop_with_empty_axes"), _out_same,
                  _reducesum),
    "Cast": ([("T1", ANY, "1")], ("to",), _out_cast, _cast),
    "CastLike": ([("T1", ANY, "1"), ("T2", ANY, "1")], (), lambda d, at: [d[1]], _castlike),
    "Clip": ([("T", NUM, "1"), ("T", NUM, "?"), ("T", NUM, "?")], (), _out_same, _clip),
    "Split": ([("T", ANY, "1"), ("(int64)", (I,), "?")], ("num_outputs", "axis"),
              lambda d, at: [d[0]] * int(at.get("num_outputs") or 0), _split),
    "TopK": ([("T", NUM, "1"), ("(int64)", (I,), "1")], ("axis", "largest", "sorted"),
             lambda d, at: [d[0], I], _topk),
    "LeakyRelu": ([("T", (F,), "1")], ("alpha",), _out_same, _leakyrelu),
    "Concat": ([("T", ANY, "*")], ("axis",), _out_same, _concat),
    "Shape": ([("T", ANY, "1")], ("start", "end"), lambda d, at: [I], _shape),
}

BINOPS = {"+": "Add", "-": "Sub", "*": "Mul", "/": "Div", "%": "Mod", "**": "Pow", "==": "Equal", "<": "Less",
          "<=": "LessOrEqual", ">": "Greater", ">=": "GreaterOrEqual", "&": "And", "|": "Or", "!=": "NotEqual"}


def _formals(opname, nargs):
    sig = OPS[opname][0]
    out = []
    for j in range(nargs):
        if j < len(sig):
            out.append(sig[j])
        elif sig and sig[-1][2] == "*":
            out.append(sig[-1])
        else:
            raise Undefined(f"{opname}: too many inputs")
    required = sum(1 for s in sig if s[2] == "1")
    if nargs < required:
        raise Undefined(f"{opname}: missing required input")
    return out


def bind_dtypes(opname, kinds):
    """kinds: per actual argument a dtype code, ("poly", natural dtype) or None (omitted).  Returns the list of
    dtypes the operands have after literal promotion, or raises Undefined when ill-typed."""
    formals = _formals(opname, len(kinds))
    binding = {}
    for (tv, allowed, mode), k in zip(formals, kinds):
        if k is None:
            if mode == "1":
                raise Undefined(f"{opname}: required input omitted")
            continue
        if isinstance(k, tuple):
            continue
        if tv.startswith("("):
            continue
        if tv in binding and binding[tv] != k:
            raise Undefined(f"{opname}: operands of types {binding[tv]} and {k}")
        binding[tv] = k
    res = []
    seen_poly = {}
    for (tv, allowed, mode), k in zip(formals, kinds):
        if k is None:
            res.append(None)
            continue
        if isinstance(k, tuple):
            if tv.startswith("("):
                d = k[1]  # fixed-type formal: the literal keeps its natural type
            elif tv in binding:
                d = binding[tv]
            else:
                d = k[1]
                if tv in seen_poly and seen_poly[tv] != d:
                    raise Undefined(f"{opname}: literals of different natural types and no tensor operand")
                seen_poly[tv] = d
        else:
            d = k
        if d not in allowed:
            raise Undefined(f"{opname}: type {d} not allowed")
        res.append(d)
    return res


def apply_op(opname, args, attrs):
    """args: list of np arrays / Poly / None.  Implements literal promotion then the operator."""
    if opname == "NotEqual":
        r = apply_op("Equal", args, attrs)
        return [np.logical_not(r[0])]
    if opname not in OPS:
        raise Undefined(f"operator {opname} not modelled")
    sig, allowed_attrs, outfn, impl = OPS[opname]
    for k in attrs:
        if k not in allowed_attrs:
            raise Undefined(f"{opname}: attribute {k}")
    kinds = []
    for a in args:
        if a is None:
            kinds.append(None)
        elif isinstance(a, Poly):
            kinds.append(("poly", natural_dt(a.v)))
        else:
            kinds.append(dt_of(a))
    dts = bind_dtypes(opname, kinds)
    while args and args[-1] is None:
        args = args[:-1]
        dts = dts[:-1]
    if any(a is None for a in args) and opname != "Clip":
        raise Undefined("omitted middle input")
    conv = []
    for a, d in zip(args, dts):
        if a is None:
            conv.append(None)
        elif isinstance(a, Poly):
            conv.append(poly_to(a, d))
        else:
            conv.append(a)
    return impl(conv, attrs)


# ------------------------------------------------------------------------------------------------
# Interpreter
# ------------------------------------------------------------------------------------------------

FUEL = 64


class Interp:
    def __init__(self, prog, helpers=None):
        self.prog = prog
        self.helpers = {h["name"]: h for h in (helpers if helpers is not None else prog.get("helpers", []))}

    def run(self, inputs, attrs):
        """inputs: dict name->np array; attrs: dict name->python value (defaults filled by caller or here)."""
        env = {}
        for name, kind in self.prog["params"]:
            if name not in inputs:
                raise Undefined(f"missing input {name}")
            env[name] = np.asarray(inputs[name])
        aenv = {}
        for name, ty, default in self.prog["attrs"]:
            if name in attrs:
                aenv[name] = attrs[name]
            elif default is not None:
                aenv[name] = default
            else:
                raise Undefined(f"required attribute {name} not supplied")
        self.aenv = aenv
        self.atypes = {name: ty for name, ty, _ in self.prog["attrs"]}
        self.steps = 0
        self.block(self.prog["body"], env)
        return [self.tensor(self.expr(e, env)) for e in self.prog["ret"]]

    def tensor(self, v):
        if isinstance(v, Poly):
            # a bare literal / attribute used as a value: its natural ONNX type (tutorial table)
            return poly_to(v, natural_dt(v.v))
        return v

    def attr_value(self, name):
        v = self.aenv[name]
        ty = self.atypes[name]
        return {"float": float, "int": int, "bool": bool}[ty](v)

    def expr(self, e, env):
        t = e[0]
        if t == "var":
            if e[1] not in env:
                raise Undefined(f"unbound {e[1]}")
            return env[e[1]]
        if t == "lit":
            return Poly(e[1])
        if t == "attr":
            return Poly(self.attr_value(e[1]))
        if t == "none":
            return None
        if t == "sub":
            raise Undefined("subscript expressions are rendered only (C02 slice family), not interpreted")
        if t == "bin":
            a = self.expr(e[2], env)
            b = self.expr(e[3], env)
            if isinstance(a, Poly) and isinstance(b, Poly):
                raise Undefined("both operands literal: python arithmetic, not an operator")
            op = BINOPS[e[1]]
            at = {}
            if op == "Mod":
                # '%' denotes Mod; floating point operands are only defined with fmod=1
                other = b if isinstance(a, Poly) else a
                if dt_of(other) == F:
                    at = {"fmod": 1}
            return apply_op(op, [a, b], at)[0]
        if t == "neg":
            a = self.expr(e[1], env)
            if isinstance(a, Poly):
                if isinstance(a.v, bool) or isinstance(a.v, list):
                    raise Undefined("-literal of that kind")
                return Poly(-a.v)
            return apply_op("Neg", [a], {})[0]
        if t == "call":
            outs = self.call(e, env)
            if len(outs) != 1:
                raise Undefined("multi-output op used as a value")
            return outs[0]
        if t == "fcall":
            outs = self.fcall(e, env)
            if len(outs) != 1:
                raise Undefined("multi-output function used as a value")
            return outs[0]
        raise Undefined(f"expression {t}")

    def call(self, e, env):
        _, opname, args, attrs = e
        if opname not in OPS:
            raise Undefined(f"operator {opname} not modelled")
        sig = OPS[opname][0]
        names = SIG_NAMES.get(opname)
        pos = []
        kw = {}
        for a in args:
            if a[0] == "kw":
                kw[a[1]] = self.expr(a[2], env)
            else:
                if kw:
                    raise Undefined("positional after keyword")
                pos.append(self.expr(a, env))
        if kw:
            if names is None:
                raise Undefined("keyword inputs for this op not modelled")
            full = list(pos) + [None] * (len(names) - len(pos))
            for k, v in kw.items():
                if k not in names:
                    raise Undefined(f"{opname} has no input {k}")
                j = names.index(k)
                if j < len(pos):
                    raise Undefined("input given twice")
                full[j] = v
            pos = full
        at = {}
        for k, av in attrs:
            v = self.aval(av)
            if v is not None:
                at[k] = v
        return apply_op(opname, pos, at)

    def aval(self, av):
        if av[0] == "py":
            return av[1]
        if av[0] == "ref":
            return self.attr_value(av[1])
        raise Undefined("attribute value form")

    def fcall(self, e, env):
        _, fname, args, kws = e
        h = self.helpers.get(fname)
        if h is None:
            raise Undefined(f"unknown function {fname}")
        pnames = [p[0] for p in h["params"]]
        anames = [a[0] for a in h["attrs"]]
        order = pnames + anames
        inputs, attrs = {}, {}
        for j, a in enumerate(args):
            if j >= len(order):
                raise Undefined("too many arguments")
            nm = order[j]
            if nm in pnames:
                inputs[nm] = self.tensor(self.expr(a, env))
            else:
                attrs[nm] = self.attr_arg(a)
        for k, a in kws:
            if k in inputs or k in attrs:
                raise Undefined("argument given twice")
            if k in pnames:
                inputs[k] = self.tensor(self.expr(a, env))
            elif k in anames:
                attrs[k] = self.attr_arg(a)
            else:
                raise Undefined(f"no parameter {k}")
        for nm, kind in h["params"]:
            if nm in inputs and dt_of(inputs[nm]) != KIND_DT[kind]:
                raise Undefined("argument type differs from the parameter's annotation")
        sub = Interp(h, helpers=list(self.helpers.values()))
        return sub.run(inputs, attrs)

    def attr_arg(self, a):
        # attribute argument of a script-function call: a python constant or one of our attribute parameters
        if a[0] == "lit":
            return a[1]
        if a[0] == "py":
            return a[1]
        if a[0] in ("attr", "ref"):
            return self.attr_value(a[1])
        if a[0] == "neg" and a[1][0] == "lit":
            return -a[1][1]
        raise Undefined("attribute argument must be a constant")

    def truth(self, v):
        v = self.tensor(v)
        if v.dtype != np.bool_:
            raise Undefined("condition must be a boolean tensor (If/Loop doc)")
        if v.size != 1:
            raise Undefined("condition must have exactly one element")
        return bool(v.reshape(()))

    def block(self, stmts, env):
        for s in stmts:
            r = self.stmt(s, env)
            if r == "break":
                return "break"
        return None

    def shadow(self, stmts, env):
        """ONNX graphs are typed statically: a path that is not taken on this input must still make sense
        (operand types, ranks, bound names) or no runtime will load the model.  The untaken path is evaluated
        on a copy of the environment; if that is undefined the program is not considered defined here."""
        e2 = dict(env)
        try:
            self.block(stmts, e2)
        except Undefined as u:
            raise Undefined("untaken path: " + u.reason) from None

    def tick(self):
        self.steps += 1
        if self.steps > FUEL:
            raise Undefined("fuel exhausted")

    def stmt(self, s, env):
        t = s[0]
        if t == "assign":
            v = self.expr(s[2], env)
            if isinstance(v, Poly):
                raise Undefined("variable bound to a bare literal (type depends on later use)")
            env[s[1]] = v
        elif t == "massign":
            e = s[2]
            outs = self.call(e, env) if e[0] == "call" else self.fcall(e, env)
            if len(outs) != len(s[1]):
                raise Undefined("unpacking count mismatch")
            for n, v in zip(s[1], outs):
                env[n] = v
        elif t == "passign":
            vals = [self.expr(x, env) for x in s[2]]  # python: rhs tuple evaluated first
            if len(vals) != len(s[1]):
                raise Undefined("unpacking count mismatch")
            if any(isinstance(v, Poly) for v in vals):
                raise Undefined("variable bound to a bare literal")
            for n, v in zip(s[1], vals):
                env[n] = v
        elif t == "if":
            taken, other = (s[2], s[3]) if self.truth(self.expr(s[1], env)) else (s[3], s[2])
            self.shadow(other, env)
            return self.block(taken, env)
        elif t == "for":
            _, ivar, rng, body, brk = s
            n = self.tensor(self.expr(rng, env))
            if n.dtype != np.int64 or n.ndim != 0:
                raise Undefined("range() bound must be a rank-0 int64")
            n = int(n)
            if n < 0:
                raise Undefined("negative trip count")
            if n == 0:
                e2 = dict(env)
                e2[ivar] = np.array(0, dtype=np.int64)
                self.shadow(body, e2)
            for it in range(n):
                self.tick()
                env[ivar] = np.array(it, dtype=np.int64)
                r = self.block(body, env)
                if r == "break":
                    raise Undefined("break not in trailing position")
                if brk is not None:
                    if brk not in env:
                        raise Undefined(f"unbound {brk}")
                    if self.truth(env[brk]):
                        break
        elif t == "while":
            _, cvar, body, brk = s
            first = True
            while True:
                if cvar not in env:
                    raise Undefined(f"unbound {cvar}")
                if not self.truth(env[cvar]):
                    if first:
                        self.shadow(body, env)
                    break
                first = False
                self.tick()
                self.block(body, env)
                if brk is not None:
                    if brk not in env:
                        raise Undefined(f"unbound {brk}")
                    if self.truth(env[brk]):
                        break
        else:
            raise Undefined(f"statement {t} has no plain reading here")
        return None


# input names of the modelled ops (from the schemas' documentation) for keyword-passed inputs
SIG_NAMES = {
    "Add": ["A", "B"], "Sub": ["A", "B"], "Mul": ["A", "B"], "Div": ["A", "B"], "Clip": ["input", "min", "max"],
    "Where": ["condition", "X", "Y"], "ReduceSum": ["data", "axes"], "TopK": ["X", "K"],
    "Split": ["input", "split"], "Cast": ["input"], "CastLike": ["input", "target_type"], "Abs": ["X"],
    "Neg": ["X"], "Identity": ["input"], "LeakyRelu": ["X"], "Less": ["A", "B"], "Pow": ["X", "Y"],
}


# ------------------------------------------------------------------------------------------------
# Static typing over the AST (used by the generators to prune ill-typed programs and to annotate returns)
# ------------------------------------------------------------------------------------------------

class Typer:
    def __init__(self, prog):
        self.prog = prog
        self.helpers = {h["name"]: h for h in prog.get("helpers", [])}
        self.atypes = {name: ty for name, ty, _ in prog["attrs"]}

    def lit_dt(self, v):
        return natural_dt(v)

    def expr(self, e, env):
        """-> dtype | ("poly", natural) ; raises Undefined when ill-typed / unbound."""
        t = e[0]
        if t == "var":
            if e[1] not in env:
                raise Undefined(f"unbound {e[1]}")
            return env[e[1]]
        if t == "lit":
            return ("poly", natural_dt(e[1]))
        if t == "attr":
            return ("poly", {"float": F, "int": I, "bool": B}[self.atypes[e[1]]])
        if t == "none":
            return None
        if t == "sub":
            raise Undefined("subscript")
        if t == "bin":
            a, b = self.expr(e[2], env), self.expr(e[3], env)
            if isinstance(a, tuple) and isinstance(b, tuple):
                raise Undefined("both literal")
            op = BINOPS[e[1]]
            if op == "NotEqual":
                bind_dtypes("Equal", [a, b])
                return B
            d = bind_dtypes(op, [a, b])
            return OPS[op][2](d, {})[0]
        if t == "neg":
            a = self.expr(e[1], env)
            if isinstance(a, tuple):
                return a
            d = bind_dtypes("Neg", [a])
            return d[0]
        if t == "call":
            outs = self.call(e, env)
            if len(outs) != 1:
                raise Undefined("multi-output as value")
            return outs[0]
        if t == "fcall":
            outs = self.fcall(e, env)
            if len(outs) != 1:
                raise Undefined("multi-output as value")
            return outs[0]
        raise Undefined(t)

    def call(self, e, env):
        _, opname, args, attrs = e
        if opname not in OPS:
            raise Undefined("op")
        names = SIG_NAMES.get(opname)
        pos, kw = [], {}
        for a in args:
            if a[0] == "kw":
                kw[a[1]] = self.expr(a[2], env)
            else:
                pos.append(self.expr(a, env))
        if kw:
            if names is None:
                raise Undefined("kw")
            full = list(pos) + [None] * (len(names) - len(pos))
            for k, v in kw.items():
                if k not in names or names.index(k) < len(pos):
                    raise Undefined("kw")
                full[names.index(k)] = v
            pos = full
        at = {}
        for k, av in attrs:
            if av[0] == "py":
                at[k] = av[1]
            else:
                at[k] = {"num_outputs": 2, "to": 1}.get(k, 1)  # type-level placeholder for attribute refs
        d = bind_dtypes(opname, pos)
        return OPS[opname][2](d, at)

    def fcall(self, e, env):
        h = self.helpers.get(e[1])
        if h is None:
            raise Undefined("fn")
        pk = {n: KIND_DT[k] for n, k in h["params"]}
        order = [n for n, _ in h["params"]]
        given = [(order[j], a) for j, a in enumerate(e[2]) if j < len(order)] + [(k, a) for k, a in e[3] if k in pk]
        for nm, a in given:
            d = self.expr(a, env)
            d = d[1] if isinstance(d, tuple) else d
            if d != pk[nm]:
                raise Undefined("argument type differs from the parameter's annotation")
        return [KIND_DT[k] for k in h["rkinds"]]

    def block(self, stmts, env):
        for s in stmts:
            self.stmt(s, env)

    def stmt(self, s, env):
        t = s[0]
        if t == "assign":
            d = self.expr(s[2], env)
            if isinstance(d, tuple):
                raise Undefined("bare literal")
            env[s[1]] = d
        elif t == "massign":
            e = s[2]
            outs = self.call(e, env) if e[0] == "call" else self.fcall(e, env)
            if len(outs) != len(s[1]):
                raise Undefined("count")
            for n, d in zip(s[1], outs):
                env[n] = d
        elif t == "passign":
            ds = [self.expr(x, env) for x in s[2]]
            for n, d in zip(s[1], ds):
                if isinstance(d, tuple):
                    raise Undefined("bare literal")
                env[n] = d
        elif t == "if":
            c = self.expr(s[1], env)
            if c != B and c != ("poly", B):
                raise Undefined("cond type")
            e1, e2 = dict(env), dict(env)
            self.block(s[2], e1)
            self.block(s[3], e2)
            for k in set(e1) | set(e2):
                if k in e1 and k in e2:
                    if e1[k] != e2[k]:
                        raise Undefined("branch types differ")
                    env[k] = e1[k]
                else:
                    env[k] = e1.get(k, e2.get(k))  # defined on one path only: type of that path
        elif t == "for":
            r = self.expr(s[2], env)
            if r != I and r != ("poly", I):
                raise Undefined("range type")
            e1 = dict(env)
            e1[s[1]] = I
            self.block(s[3], e1)
            for k, v in e1.items():
                if k in env and env[k] != v:
                    raise Undefined("loop-carried type changes")
                env[k] = v
        elif t == "while":
            if env.get(s[1]) != B:
                raise Undefined("while cond type")
            e1 = dict(env)
            self.block(s[2], e1)
            for k, v in e1.items():
                if k in env and env[k] != v:
                    raise Undefined("loop-carried type changes")
                env[k] = v
        else:
            raise Undefined(t)

    def ret_dtypes(self):
        env = {name: KIND_DT[kind] for name, kind in self.prog["params"]}
        self.block(self.prog["body"], env)
        out = []
        for e in self.prog["ret"]:
            d = self.expr(e, env)
            out.append(d[1] if isinstance(d, tuple) else d)
        return out


# ------------------------------------------------------------------------------------------------
# Renderer
# ------------------------------------------------------------------------------------------------

HEADER = ("from onnxscript import script, FLOAT, INT64, BOOL\n"
          "from onnxscript.onnx_opset import opset18 as op\n")


def r_lit(v):
    if isinstance(v, list):
        return "[" + ", ".join(r_lit(x) for x in v) + "]"
    return repr(v)


def r_expr(e, top=True):
    t = e[0]
    if t == "var" or t == "attr":
        return e[1]
    if t == "lit":
        return r_lit(e[1])
    if t == "none":
        return "None"
    if t == "py":
        return r_lit(e[1])
    if t == "ref":
        return e[1]
    if t == "bin":
        s = f"{r_expr(e[2], False)} {e[1]} {r_expr(e[3], False)}"
        return s if top else f"({s})"
    if t == "neg":
        s = f"-{r_expr(e[1], False)}"
        return s if top else f"({s})"
    if t == "call":
        parts = []
        for a in e[2]:
            if a[0] == "kw":
                parts.append(f"{a[1]}={r_expr(a[2])}")
            else:
                parts.append(r_expr(a))
        for k, av in e[3]:
            parts.append(f"{k}={r_expr(av)}")
        return f"op.{e[1]}({', '.join(parts)})"
    if t == "fcall":
        parts = [r_expr(a) for a in e[2]] + [f"{k}={r_expr(a)}" for k, a in e[3]]
        return f"{e[1]}({', '.join(parts)})"
    if t == "rawexpr":
        return e[1]
    if t == "sub":   # ["sub", expr, lo, hi]: a slice of the first axis (rendered only; not interpreted)
        lo = "" if e[2] is None else str(e[2])
        hi = "" if e[3] is None else str(e[3])
        return f"{r_expr(e[1], False)}[{lo}:{hi}]"
    raise ValueError(f"cannot render {e!r}")


def shape_ann(rank):
    if rank is None:
        return "[...]"
    if rank == 0:
        return ""
    return "[" + ", ".join(["None"] * rank) + "]"


def r_block(stmts, ind, lines, marks, loop=None):
    pad = "    " * ind
    if not stmts:
        lines.append(pad + "pass")
        return
    index = marks.setdefault("#index", [])
    for s in stmts:
        t = s[0]
        if len(s) > 1 and isinstance(s[-1], dict) and s[-1].get("mark"):
            marks[s[-1]["mark"]] = len(lines) + 1
            s = s[:-1]
        index.append({"line": len(lines) + 1, "indent": ind, "type": t, "loop": loop})
        if t == "assign":
            lines.append(f"{pad}{s[1]} = {r_expr(s[2])}")
        elif t == "massign":
            lines.append(f"{pad}{', '.join(s[1])} = {r_expr(s[2])}")
        elif t == "passign":
            lines.append(f"{pad}{', '.join(s[1])} = {', '.join(r_expr(x) for x in s[2])}")
        elif t == "if":
            lines.append(f"{pad}if {r_expr(s[1])}:")
            r_block(s[2], ind + 1, lines, marks, loop)
            if s[3]:
                lines.append(f"{pad}else:")
                r_block(s[3], ind + 1, lines, marks, loop)
        elif t == "for":
            lines.append(f"{pad}for {s[1]} in range({r_expr(s[2])}):")
            body = list(s[3])
            if not body and s[4] is None:
                lines.append(pad + "    pass")
            else:
                if body:
                    r_block(body, ind + 1, lines, marks, ("for", s[1]))
                if s[4] is not None:
                    lines.append(f"{pad}    if {s[4]}:")
                    lines.append(f"{pad}        break")
        elif t == "while":
            lines.append(f"{pad}while {s[1]}:")
            if s[2]:
                r_block(s[2], ind + 1, lines, marks, ("while", s[1]))
            if s[3] is not None:
                lines.append(f"{pad}    if {s[3]}:")
                lines.append(f"{pad}        break")
            if not s[2] and s[3] is None:
                lines.append(pad + "    pass")
        elif t == "raw":
            for l in s[1]:
                lines.append(pad + l)
        elif t == "return":
            lines.append(f"{pad}return {', '.join(r_expr(x) for x in s[1])}")
        elif t == "def":
            _, name, params, body, rets = s
            lines.append(f"{pad}def {name}({', '.join(params)}):")
            r_block(body, ind + 1, lines, {})
            lines.append(f"{pad}    return {', '.join(r_expr(x) for x in rets)}")
        else:
            raise ValueError(f"cannot render statement {t}")


def render_function(prog, ranks=None, out_ranks=None, lines=None, marks=None):
    """ranks: dict param name -> rank|None for non-scalar params (None => [...]).  Returns list of lines."""
    lines = [] if lines is None else lines
    marks = {} if marks is None else marks
    ranks = ranks or {}
    ps = []
    for name, kind in prog["params"]:
        if kind.endswith("0"):
            ps.append(f"{name}: {KIND_ANN[kind]}")
        else:
            ps.append(f"{name}: {KIND_ANN[kind]}{shape_ann(ranks.get(name))}")
    for name, ty, default in prog["attrs"]:
        ps.append(f"{name}: {ty}" + ("" if default is None else f" = {default!r}"))
    rk = prog.get("rkinds")
    ann = ""
    if rk:
        outs = []
        for j, kind in enumerate(rk):
            orank = None if out_ranks is None else out_ranks[j]
            outs.append(f"{KIND_ANN[kind]}{shape_ann(orank)}" if not (orank == 0) else KIND_ANN[kind])
        ann = " -> " + (outs[0] if len(outs) == 1 else "tuple[" + ", ".join(outs) + "]")
    lines.append("@script(default_opset=op)")
    lines.append(f"def {prog['name']}({', '.join(ps)}){ann}:")
    marks["def:" + prog["name"]] = len(lines)
    if prog["body"] or prog["ret"] is None:
        r_block(prog["body"], 1, lines, marks)
    if prog["ret"] is not None:
        marks["return"] = len(lines) + 1
        lines.append("    return " + ", ".join(r_expr(e) for e in prog["ret"]))
    return lines


def render(prog, ranks=None, out_ranks=None, with_marks=False):
    lines = HEADER.rstrip("\n").split("\n")
    lines.append("")
    marks = {}
    for h in prog.get("helpers", []):
        render_function(h, lines=lines, marks={})
        lines.append("")
    render_function(prog, ranks=ranks, out_ranks=out_ranks, lines=lines, marks=marks)
    src = "\n".join(lines) + "\n"
    return (src, marks) if with_marks else src


def body_text(prog):
    """Short rendering without header (for evidence samples / keys)."""
    lines = []
    for h in prog.get("helpers", []):
        render_function(h, lines=lines, marks={})
    render_function(prog, lines=lines, marks={})
    return "\n".join(l for l in lines if not l.startswith("@script"))


def c_block(stmts):
    out = []
    for s in stmts:
        t = s[0]
        if t == "assign":
            out.append(f"{s[1]}={r_expr(s[2])}".replace(" ", ""))
        elif t == "massign":
            out.append(f"{','.join(s[1])}={r_expr(s[2])}".replace(" ", ""))
        elif t == "passign":
            out.append(f"{','.join(s[1])}={','.join(r_expr(x) for x in s[2])}".replace(" ", ""))
        elif t == "if":
            e = f"else{{{c_block(s[3])}}}" if s[3] else ""
            out.append(f"if {r_expr(s[1])}{{{c_block(s[2])}}}{e}")
        elif t == "for":
            b = c_block(s[3]) + (f";if {s[4]}:break" if s[4] else "")
            out.append(f"for {s[1]} in range({r_expr(s[2])}){{{b}}}")
        elif t == "while":
            b = c_block(s[2]) + (f";if {s[3]}:break" if s[3] else "")
            out.append(f"while {s[1]}{{{b}}}")
        elif t == "raw":
            out.append("raw:" + "\\n".join(s[1]))
        elif t == "return":
            out.append("return " + ",".join(r_expr(x) for x in s[1]))
        elif t == "def":
            out.append(f"def {s[1]}({','.join(s[2])}){{{c_block(s[3])};return {','.join(r_expr(x) for x in s[4])}}}")
        else:
            out.append(str(s))
    return ";".join(out)


def compact(prog):
    """One-line canonical rendering (program identity / finding keys)."""
    parts = []
    for h in prog.get("helpers", []):
        parts.append(compact(h))
    sig = ",".join([f"{n}:{k}" for n, k in prog["params"]] +
                   [f"{n}:{t}" + ("" if d is None else f"={d!r}") for n, t, d in prog["attrs"]])
    body = c_block(prog["body"])
    ret = "" if prog["ret"] is None else "return " + ",".join(r_expr(e) for e in prog["ret"]).replace(" ", "")
    parts.append(f"{prog['name']}({sig}){{{body + ';' if body else ''}{ret}}}")
    return " ".join(parts)
