from __future__ import annotations

import json
import os

ROOT = os.path.dirname(os.path.dirname(os.path.abspath(__file__)))


def write(prop, tier, seed, level, coverage, wall_s, violations, assumptions):
    # VERIF_EVIDENCE_DIR: development aid for runs against a deliberately broken tree (seeded/try.sh), so that such
    # a run does not replace the evidence of the real tree; registered commands never set it
    edir = os.environ.get("VERIF_EVIDENCE_DIR") or os.path.join(ROOT, "evidence")
    os.makedirs(edir, exist_ok=True)
    ev = dict(property_id=prop, tier=tier, seed=int(seed), level=level, coverage=coverage,
              assumptions=list(assumptions), wall_s=round(float(wall_s), 3), violations=int(violations))
    path = os.path.join(edir, f"{prop}.json")
    tmp = path + ".tmp"
    with open(tmp, "w") as f:
        json.dump(ev, f, indent=1, default=repr)
    os.replace(tmp, path)
    try:
        import jsonschema
        with open("/root/.vp/EVIDENCE.schema.json") as f:
            schema = json.load(f)
        jsonschema.validate(ev, schema)
    except FileNotFoundError:
        pass
    return path
