from __future__ import annotations

import json
import os

ROOT = os.path.dirname(os.path.dirname(os.path.abspath(__file__)))


def write(prop, tier, seed, level, coverage, wall_s, violations, assumptions):
    os.makedirs(os.path.join(ROOT, "evidence"), exist_ok=True)
    ev = dict(property_id=prop, tier=tier, seed=int(seed), level=level, coverage=coverage,
              assumptions=list(assumptions), wall_s=round(float(wall_s), 3), violations=int(violations))
    path = os.path.join(ROOT, "evidence", f"{prop}.json")
    tmp = path + ".tmp"
    with open(tmp, "w") as f:
        json.dump(ev, f, indent=1, default=repr)
    os.replace(tmp, path)
    try:
        import jsonschema
        with open("/root/.vp/EVIDENCE.schema.json") as f:
            schema = json.load(f)
        jsonschema.validate(ev, schema)
    except FileNotFoundError:
        pass
    return path
