"""c01lib - observation, comparison, attribution and minimisation for C01 (parts reused by C02)."""
from __future__ import annotations

import copy
import os
import re

import numpy as np

from vf import explore, runeq, sg, sggen, sgrun, wf

SHRINK = os.environ.get("VERIF_C01_NOSHRINK") != "1"


# ------------------------------------------------------------------------------------------------
# observation of one program
# ------------------------------------------------------------------------------------------------

class Observer:
    """A decorated program with its sessions."""

    def __init__(self, prog):
        self.prog = prog
        self.loaded = sgrun.decorate(prog)  # may raise Refused
        self._model_sess = None
        self._model_state = None  # None unknown | "ok" | ("na", why) | ("err", kind, msg)
        self._func_sess = {}
        self._func_model = {}
        self.model_attr_ref = False
        self._wf = {}

    def close(self):
        self.loaded.close()

    def model_session(self):
        if self._model_state is None:
            model, err = sgrun.get_model(self.loaded)
            if model is None:
                et, msg = err
                if et == "ValueError" and "required attributes" in msg:
                    self._model_state = ("na", "required-attribute")
                else:
                    self._model_state = ("err", "export:" + et, msg)
            else:
                self.model_attr_ref = sgrun.has_attr_ref(model.graph)
                self._model_sess = sgrun.Sess(model)
                self._model_state = "ok"
        return self._model_state

    def obs_model(self, feeds, attrs):
        st = self.model_session()
        if st != "ok":
            return st
        if attrs:
            return ("na", "non-default-attribute")
        return self._model_sess.run(feeds)

    def call_model(self, attrs):
        key = tuple(sorted(attrs.items()))
        if key not in self._func_model:
            self._func_model[key] = sgrun.build_call_model(self.loaded, attrs)
        return self._func_model[key]

    def obs_func(self, feeds, attrs):
        key = tuple(sorted(attrs.items()))
        s = self._func_sess.get(key)
        if s is None:
            try:
                cm = self.call_model(attrs)
            except Exception as e:  # noqa: BLE001
                return ("err", "export:" + type(e).__name__, str(e)[:300])
            s = sgrun.Sess(cm)
            self._func_sess[key] = s
        return s.run(feeds)

    def obs_eager(self, feeds, attrs):
        return sgrun.call_eager(self.loaded, feeds, attrs)

    def observe(self, which, feeds, attrs):
        return {"eager": self.obs_eager, "model": self.obs_model, "func": self.obs_func}[which](feeds, attrs)

    def malformed(self, which, attrs):
        """Structural defects of the emitted proto behind observation ``which`` (independent walker vf.wf)."""
        if which not in self._wf:
            probs = []
            try:
                if which == "model":
                    m, _ = sgrun.get_model(self.loaded)
                    if m is not None:
                        probs = wf.check_model(m)
                elif which == "func":
                    probs = wf.check_model(self.call_model(attrs))
            except Exception:  # noqa: BLE001
                probs = []
            self._wf[which] = sorted({c for c in (wf_class(p) for p in probs) if c})
        return self._wf[which]


_OWNER = re.compile(r"/([A-Za-z]+)#\d+\.[a-z_\[\]0-9]+(?=:)")


def wf_class(problem):
    """Map a vf.wf problem string to a defect class that can break execution; None for the others."""
    owner = _OWNER.findall(problem)
    where = owner[-1] if owner else ("function" if problem.startswith("function") else "graph")
    if "duplicate graph output names" in problem or "duplicate outputs" in problem:
        return f"duplicate-output-names:{where}"
    if "is not imported" in problem or "has no opset import" in problem:
        return "operator-domain-not-imported"
    if "defined more than once" in problem or "redefines" in problem:
        return f"name-defined-twice:{where}"
    if "undefined/later-defined" in problem or "is not defined" in problem:
        return f"use-before-definition:{where}"
    if "imported more than once" in problem:
        return "domain-imported-twice"
    return None


def judge(obs, ref):
    """obs: observation tuple; ref: list of arrays from the interpreter.  -> None | (kind, detail)"""
    if obs[0] == "na":
        return None
    if obs[0] == "err":
        kind = obs[1]
        if "NOT_IMPLEMENTED" in obs[2] or "NotImplemented" in kind:
            return None  # the runtime has no kernel for this (valid) operator/type: nothing to conclude
        if kind == "load":
            return ("load-fails", obs[2])
        if kind == "run":
            return ("run-fails", obs[2])
        if kind == "timeout":
            return ("no-termination", obs[2])
        if kind.startswith("export:"):
            return ("export-raises:" + kind[7:], obs[2])
        return ("raises:" + kind, obs[2])
    d = runeq.compare(obs[1], ref)
    if d is None:
        return None
    what = "count" if d.startswith("output count") else "dtype" if "dtype" in d else "shape" if "shape" in d else "values"
    return ("differs-" + what, d)


OBS = ("eager", "model", "func")


def kind_class(kind):
    return "differs" if kind.startswith("differs-") else kind


def interp(prog, feeds, attrs):
    return sg.Interp(prog).run(feeds, attrs)


# ------------------------------------------------------------------------------------------------
# attribution: causes directly recognisable on the emitted proto / the error text
# ------------------------------------------------------------------------------------------------

def attribute_direct(which, kind, detail, observer, attrs):
    if which == "model" and observer.model_attr_ref:
        return "C01|model|attribute-reference-in-main-graph"
    if which in ("model", "func"):
        cls = observer.malformed(which, attrs)
        if cls:
            return "C01|graph|malformed-proto|" + cls[0]
        if kind.startswith("differs") and reads_loop_variable_after_loop(observer.prog):
            return "C01|graph|loop-variable-read-after-its-loop"
        if kind.startswith("differs") or kind in ("load-fails", "run-fails"):
            try:
                sel = selection_probe(observer.prog, sgrun.get_fproto(observer.loaded))
            except Exception:  # noqa: BLE001
                sel = []
            if sel:
                return "C01|graph|control-flow-output-selection|" + sel[0]
    if which == "eager" and kind == "raises:TypeError" and detail.startswith("unsupported operand type(s) for "):
        sym = detail[len("unsupported operand type(s) for "):].split(":")[0]
        return f"C01|eager-raises|Tensor-has-no-reflected-operator|{sym}"
    return None


# ------------------------------------------------------------------------------------------------
# "does this program still show the violation" (memoised per worker: pure function of its arguments)
# ------------------------------------------------------------------------------------------------

_MEMO = {}
_MEMO_MAX = 200000
memo_stats = {"hit": 0, "miss": 0}


def _val_key(feeds, attrs):
    return (tuple((k, v.dtype.str, v.shape, v.tobytes()) for k, v in sorted(feeds.items())),
            tuple(sorted(attrs.items())))


def still_fails(prog, feeds, attrs, which, kclass):
    attrs = {k: v for k, v in attrs.items() if any(a[0] == k for a in prog["attrs"])}
    for name, ty, default in prog["attrs"]:
        if default is None and name not in attrs:
            attrs[name] = {"alpha": 0.25}.get(name, 1)
    pn = [p[0] for p in prog["params"]]
    if any(p not in feeds for p in pn):
        return False
    feeds = {k: v for k, v in feeds.items() if k in pn}
    mk = (sg.compact(prog), _val_key(feeds, attrs), which, kclass)
    if mk in _MEMO:
        memo_stats["hit"] += 1
        return _MEMO[mk]
    memo_stats["miss"] += 1
    r = _still_fails(prog, feeds, attrs, which, kclass)
    if len(_MEMO) >= _MEMO_MAX:
        _MEMO.clear()
    _MEMO[mk] = r
    return r


def _still_fails(prog, feeds, attrs, which, kclass):
    try:
        ref = interp(prog, feeds, attrs)
    except sg.Undefined:
        return False
    try:
        ob = Observer(prog)
    except (sgrun.Refused, SyntaxError):
        return False
    try:
        o = ob.observe(which, feeds, attrs)
        j = judge(o, ref)
        if j is None:
            return False
        if attribute_direct(which, j[0], j[1], ob, attrs) is not None:
            return False
        return kind_class(j[0]) == kclass
    finally:
        ob.close()


# ------------------------------------------------------------------------------------------------
# minimisation of dataflow programs (AST level)
# ------------------------------------------------------------------------------------------------

def _blocks(stmts, path=()):
    yield path, stmts
    for idx, s in enumerate(stmts):
        if s[0] == "if":
            yield from _blocks(s[2], path + (idx, 2))
            yield from _blocks(s[3], path + (idx, 3))
        elif s[0] == "for":
            yield from _blocks(s[3], path + (idx, 3))
        elif s[0] == "while":
            yield from _blocks(s[2], path + (idx, 2))


def _get_block(body, path):
    b = body
    for j in range(0, len(path), 2):
        b = b[path[j]][path[j + 1]]
    return b


def _rebuild(prog, body, ret):
    main = prog["params"][0][1]
    ad = {a[0]: a[2] for a in prog["attrs"]}
    used = set()
    sggen._fn_names(body, used)
    sggen._fn_names(ret, used)
    helpers = [h for h in prog.get("helpers", []) if h["name"] in used]
    return sggen.finish_prog(body, ret, helpers=helpers, main=main, attr_defaults=ad)


CANON_RHS = [["bin", "+", ["var", "x"], ["lit", 1]], ["var", "x"]]


def _subexprs(e):
    if e[0] == "bin":
        return [e[2], e[3]]
    if e[0] == "neg":
        return [e[1]]
    if e[0] == "call":
        return [a[2] if a[0] == "kw" else a for a in e[2] if a[0] != "none"]
    return []


def candidates(prog):
    """Programs one simplification step away, coarse steps first (deterministic order)."""
    body, ret = prog["body"], prog["ret"]
    for path, block in _blocks(body):
        for idx in range(len(block)):
            s = block[idx]
            nb = copy.deepcopy(body)
            del _get_block(nb, path)[idx]
            yield _rebuild(prog, nb, ret)
            if s[0] == "if":
                for br in (2, 3):
                    nb = copy.deepcopy(body)
                    _get_block(nb, path)[idx:idx + 1] = copy.deepcopy(s[br])
                    yield _rebuild(prog, nb, ret)
                if s[3]:
                    nb = copy.deepcopy(body)
                    _get_block(nb, path)[idx][3] = []
                    yield _rebuild(prog, nb, ret)
            elif s[0] in ("for", "while"):
                bi = 3 if s[0] == "for" else 2
                nb = copy.deepcopy(body)
                _get_block(nb, path)[idx:idx + 1] = copy.deepcopy(s[bi])
                yield _rebuild(prog, nb, ret)
                ki = 4 if s[0] == "for" else 3
                if s[ki] is not None:
                    nb = copy.deepcopy(body)
                    _get_block(nb, path)[idx][ki] = None
                    yield _rebuild(prog, nb, ret)
    if len(ret) > 1:
        for idx in range(len(ret)):
            yield _rebuild(prog, copy.deepcopy(body), [r for j, r in enumerate(ret) if j != idx])
    for path, block in _blocks(body):
        for idx, s in enumerate(block):
            if s[0] == "assign":
                for sub in CANON_RHS + _subexprs(s[2]):
                    if sub == s[2] or sub[0] in ("lit", "attr", "none"):
                        continue
                    if s[2] in CANON_RHS and CANON_RHS.index(s[2]) < (CANON_RHS.index(sub) if sub in CANON_RHS else 99):
                        continue
                    nb = copy.deepcopy(body)
                    _get_block(nb, path)[idx][2] = copy.deepcopy(sub)
                    yield _rebuild(prog, nb, ret)
            elif s[0] == "if" and s[1] != ["var", "b"]:
                nb = copy.deepcopy(body)
                _get_block(nb, path)[idx][1] = ["var", "b"]
                yield _rebuild(prog, nb, ret)
            elif s[0] == "for" and s[2] != ["var", "k"]:
                nb = copy.deepcopy(body)
                _get_block(nb, path)[idx][2] = ["var", "k"]
                yield _rebuild(prog, nb, ret)


def shrink(prog, test, budget=600):
    """Greedy descent: first candidate that still fails, repeat; fixpoint or budget."""
    spent = 0
    cur = prog
    cur_key = sg.compact(cur)
    progress = True
    while progress and spent < budget:
        progress = False
        seen = set()
        for cand in candidates(cur):
            key = sg.compact(cand)
            if key in seen or key == cur_key:
                continue
            seen.add(key)
            spent += 1
            if test(cand):
                cur, cur_key = cand, key
                progress = True
                break
            if spent >= budget:
                break
    return cur, spent


def _swap_uv(node):
    if isinstance(node, list):
        return [_swap_uv(c) for c in node]
    if node == "u":
        return "v"
    if node == "v":
        return "u"
    return node


def canonical_statements(prog, test):
    """After shrinking: replace every remaining simple statement on u/v by the first statement of the dataflow
    alphabet (same target) that still shows the violation, then prefer the u/v naming that sorts first."""
    cur = prog
    for path, block in list(_blocks(cur["body"])):
        for idx in range(len(_get_block(cur["body"], path))):
            s = _get_block(cur["body"], path)[idx]
            if s[0] != "assign" or s[1] not in ("u", "v"):
                continue
            other = "v" if s[1] == "u" else "u"
            for tag, e in sggen.df_exprs(s[1], other):
                if e == s[2]:
                    break
                nb = copy.deepcopy(cur["body"])
                _get_block(nb, path)[idx][2] = copy.deepcopy(e)
                cand = _rebuild(cur, nb, cur["ret"])
                if test(cand):
                    cur = cand
                    break
    sw = _rebuild(cur, _swap_uv(cur["body"]), _swap_uv(cur["ret"]))
    if sg.compact(sw) < sg.compact(cur) and test(sw):
        cur = sw
    return cur


def canonical_valuation(prog, feeds, attrs, test):
    """Move the valuation towards the default one (x = [1,-2.5,0], k = 3, b = True, attributes default) as far
    as the violation persists.  Returns (feeds, attrs, label of what had to stay non-default)."""
    pn = [p[0] for p in prog["params"]]
    feeds = {k: v for k, v in feeds.items() if k in pn}
    attrs = {k: v for k, v in attrs.items() if any(a[0] == k for a in prog["attrs"])}
    main = prog["params"][0][1]
    std = np.array([1, -2.5, 0], dtype=np.float32) if main == "F" else np.array([1, -3, 0], dtype=np.int64)
    stdy = np.array([2, -1.5, 4], dtype=np.float32) if main == "F" else np.array([2, -1, 4], dtype=np.int64)
    label = []
    for name in ("x", "y"):
        std = std if name == "x" else stdy
        if name in feeds and not (feeds[name].shape == std.shape and (feeds[name] == std).all()):
            f2 = dict(feeds)
            f2[name] = std
            if test(prog, f2, attrs):
                feeds = f2
            else:
                v = feeds[name]
                label.append(f"{name}:{'x'.join(map(str, v.shape)) or 'scalar'}" +
                             ("+nan" if v.dtype.kind == "f" and np.isnan(v).any() else ""))
    if "k" in feeds:
        for kv in (3, 1, 0):
            f2 = dict(feeds)
            f2["k"] = np.array(kv, dtype=np.int64)
            if test(prog, f2, attrs):
                feeds = f2
                break
        if int(feeds["k"]) != 3:
            label.append(f"k={int(feeds['k'])}")
    if "b" in feeds:
        for bv in (True, False):
            f2 = dict(feeds)
            f2["b"] = np.array(bv)
            if test(prog, f2, attrs):
                feeds = f2
                break
        if not bool(feeds["b"]):
            label.append("b=0")
    for name in sorted(attrs):
        a2 = {k: v for k, v in attrs.items() if k != name}
        dflt = [a[2] for a in prog["attrs"] if a[0] == name]
        if dflt and dflt[0] is not None:
            if test(prog, feeds, a2):
                attrs = a2
            else:
                label.append(f"{name}={attrs[name]}")
    return feeds, attrs, ",".join(label)


# ------------------------------------------------------------------------------------------------
# minimisation of operator programs (choice level: reset every non-default pick that is not needed)
# ------------------------------------------------------------------------------------------------

def _op_prog(spec):
    try:
        return sggen.op_build(spec)
    except explore.Prune:
        return None


def minimise_op(spec, feeds, attrs, which, kclass):
    state = {"feeds": feeds, "attrs": attrs}

    def fails(sp):
        """Same violation class under the current valuation, else under any valuation of the pool (the
        valuation is then switched: the key names the simplest choice list that shows the violation)."""
        p = _op_prog(sp)
        if p is None:
            return False
        if still_fails(p, state["feeds"], state["attrs"], which, kclass):
            return True
        for f2, a2 in sggen.op_valuations(p, None):
            if still_fails(p, f2, a2, which, kclass):
                state["feeds"], state["attrs"] = f2, a2
                return True
        return False

    cur = copy.deepcopy(spec)
    changed = True
    while changed:
        changed = False
        for dim in ("context", "chain", "alpha_default"):
            if cur[dim]:
                t = dict(cur)
                t[dim] = 0
                if fails(t):
                    cur = t
                    changed = True
        for j in range(len(cur["operands"])):
            pick = cur["operands"][j]
            for alt in range(0, pick):
                t = copy.deepcopy(cur)
                t["operands"][j] = alt
                if fails(t):
                    cur = t
                    changed = True
                    break
    # an earlier configuration with the same operand roles that shows the same violation
    roles = sggen.OP_CONFIGS[cur["op"]][1]
    nout = sggen.OP_CONFIGS[cur["op"]][3]
    for oi in range(cur["op"]):
        if sggen.OP_CONFIGS[oi][1] == roles:
            t = dict(cur)
            t["op"] = oi
            if fails(t):
                cur = t
                break
    if cur["main"] == "I":
        t = dict(cur)
        t["main"] = "F"
        if fails(t):
            cur = t
    return cur, state["feeds"], state["attrs"]


# ------------------------------------------------------------------------------------------------
# the leaf
# ------------------------------------------------------------------------------------------------

def check_program(item, want_obs=OBS):
    prog = item["prog"]
    counts = {"valuations": 0, "defined": 0, "undefined": 0, "compared": 0}
    text = sg.body_text(prog)
    nkey = sg.compact(prog)
    try:
        ob = Observer(prog)
    except sgrun.Refused as r:
        counts["refused"] = 1
        return {"status": "ok", "outcome": f"{item['sub']}:refused:{r.etype}", "nontrivial": False, "nkey": nkey,
                "counts": counts, "show": text}
    viols = {}
    undef_reasons = {}
    try:
        vals = sggen.valuations(item, None)
        found = []
        seen_classes = set()
        hung = set()
        for feeds, attrs in vals:
            counts["valuations"] += 1
            try:
                ref = interp(prog, feeds, attrs)
            except sg.Undefined as u:
                counts["undefined"] += 1
                r = u.reason.split(":")[0][:40]
                undef_reasons[r] = undef_reasons.get(r, 0) + 1
                continue
            counts["defined"] += 1
            for which in want_obs:
                if which in hung:
                    continue  # this observation did not terminate before: do not wait for it again
                o = ob.observe(which, feeds, attrs)
                if o[0] == "err" and o[1] == "timeout":
                    hung.add(which)
                if o[0] == "na":
                    counts["na:" + which + ":" + o[1]] = counts.get("na:" + which + ":" + o[1], 0) + 1
                    continue
                counts["compared"] += 1
                j = judge(o, ref)
                if j is None:
                    continue
                cls = (which, kind_class(j[0]))
                if cls in seen_classes:
                    continue  # one representative (first valuation in pool order) per class and program
                seen_classes.add(cls)
                found.append((which, j[0], j[1], feeds, attrs))
        done_graph = set()
        for which, kind, detail, feeds, attrs in found:
            kc = kind_class(kind)
            key = attribute_direct(which, kind, detail, ob, attrs)
            info = {"observation": which, "kind": kind, "what": detail[:300], "program": text,
                    "inputs": {k: runeq.describe(v) for k, v in feeds.items()}, "attrs": attrs}
            if key is None and which in ("model", "func") and kc in done_graph:
                continue  # the other graph observation of the same class was already minimised
            if key is None:
                if kc == "no-termination":
                    # not minimised (every probe would wait for the limit): keyed by the loop skeleton
                    key = f"C01|{which}-no-termination|loops:{loop_skeleton(prog['body']) or 'none'}"
                elif not SHRINK:
                    key = f"C01|{which}-{kc}|unshrunk"
                elif item["sub"] == "op":
                    spec, f2, a2 = minimise_op(item["spec"], feeds, attrs, which, kc)
                    small = _op_prog(spec)
                    f3, a3, label = canonical_valuation(small, f2, a2,
                                                        lambda p, f, a: still_fails(p, f, a, which, kc))
                    wl = graph_label(small, f3, a3, which, kc)
                    key = f"C01|{wl}-{kc}|{sggen.op_spec_label(spec)}|{label}"
                    info["minimal"] = sg.body_text(small)
                else:
                    tst = lambda p: still_fails(p, feeds, attrs, which, kc)  # noqa: E731
                    small, spent = shrink(prog, tst)
                    for _round in range(3):
                        before = sg.compact(small)
                        small = canonical_statements(small, tst)
                        small, spent2 = shrink(small, tst)
                        spent += spent2
                        if sg.compact(small) == before:
                            break
                    f3, a3, label = canonical_valuation(small, feeds, attrs,
                                                        lambda p, f, a: still_fails(p, f, a, which, kc))
                    wl = graph_label(small, f3, a3, which, kc)
                    key = f"C01|{wl}-{kc}|{sg.compact(small)}|{label}"
                    info["minimal"] = sg.body_text(small)
                    info["shrink_evals"] = spent
                if which in ("model", "func"):
                    done_graph.add(kc)
            viols.setdefault(key, info)
    finally:
        ob.close()
    for r, n in undef_reasons.items():
        counts["undef:" + r] = n
    if viols:
        return {"status": "viol", "outcome": f"{item['sub']}:accepted-violation", "nkey": nkey, "counts": counts, "show": text,
                "viols": [{"key": k, "detail": v} for k, v in sorted(viols.items())]}
    if counts["defined"] == 0:
        return {"status": "ok", "outcome": f"{item['sub']}:accepted-undefined-everywhere", "nontrivial": False,
                "nkey": nkey, "counts": counts, "show": text}
    return {"status": "ok", "outcome": f"{item['sub']}:accepted-agree", "nkey": nkey, "counts": counts, "show": text}


def graph_label(prog, feeds, attrs, which, kc):
    """'graph' when both the exported model and the function-call model show the violation on the minimal
    program, else the single observation."""
    if which == "eager":
        return "eager"
    other = "func" if which == "model" else "model"
    if still_fails(prog, feeds, attrs, other, kc):
        return "graph"
    return which


# ------------------------------------------------------------------------------------------------
# attribution probe for If/Loop output selection: an independent liveness analysis over the generator's AST
# compared with the number of outputs of the emitted If / Loop nodes (used only to NAME a violation that the
# four-way comparison has already established)
# ------------------------------------------------------------------------------------------------

def _uses(e, acc):
    if isinstance(e, list):
        if len(e) == 2 and e[0] == "var":
            acc.add(e[1])
            return
        for c in e:
            _uses(c, acc)


def _assigned(stmts):
    out = set()
    for s in stmts:
        t = s[0]
        if t == "assign":
            out.add(s[1])
        elif t in ("massign", "passign"):
            out.update(s[1])
        elif t == "if":
            out |= _assigned(s[2]) | _assigned(s[3])
        elif t == "for":
            out |= _assigned(s[3])
        elif t == "while":
            out |= _assigned(s[2])
    return out


class Liveness:
    """Backward liveness.  zero_trip=True: a loop may run zero times (what Python does); zero_trip=False: the
    loop body is assumed to run (a variable killed by the body is not live before the loop)."""

    def __init__(self, prog, zero_trip):
        self.zero_trip = zero_trip
        self.expected = []  # per compound statement in pre-order: (kind, expected output names)
        self._rec = {}
        ret_uses = set()
        _uses(prog["ret"], ret_uses)
        self.block(prog["body"], ret_uses, record=True)
        self.order(prog["body"])

    def order(self, stmts):
        for s in stmts:
            if s[0] in ("if", "for", "while"):
                self.expected.append(self._rec[id(s)])
                if s[0] == "if":
                    self.order(s[2])
                    self.order(s[3])
                elif s[0] == "for":
                    self.order(s[3])
                else:
                    self.order(s[2])

    def block(self, stmts, live, record):
        for s in reversed(stmts):
            live = self.stmt(s, live, record)
        return live

    def stmt(self, s, live_out, record):
        t = s[0]
        if t == "assign":
            u = set()
            _uses(s[2], u)
            return (live_out - {s[1]}) | u
        if t in ("massign", "passign"):
            u = set()
            _uses(s[2], u)
            return (live_out - set(s[1])) | u
        if t == "if":
            u = set()
            _uses(s[1], u)
            if record:
                self._rec[id(s)] = ("If", sorted((_assigned(s[2]) | _assigned(s[3])) & live_out))
            return self.block(s[2], live_out, record) | self.block(s[3], live_out, record) | u
        if t in ("for", "while"):
            body = s[3] if t == "for" else s[2]
            brk = s[4] if t == "for" else s[3]
            hdr = set()
            if t == "for":
                _uses(s[2], hdr)
                loopvar = {s[1]}
            else:
                hdr = {s[1]}
                loopvar = set()
            extra = {brk} if brk else set()
            cur = set(live_out) | (hdr if t == "while" else set())
            while True:
                # live at the end of the body = live after the loop, or needed by the next iteration
                nxt = self.block(body, cur | extra, False) - loopvar
                if t == "while":
                    nxt |= hdr
                new = cur | nxt
                if new == cur:
                    break
                cur = new
            end_of_body = cur | extra
            body_in = self.block(body, end_of_body, record) - loopvar
            if record:
                # (a while condition travels through the Loop's own condition channel unless it is live afterwards)
                self._rec[id(s)] = ("Loop", sorted(_assigned(body) & (live_out | (body_in - (hdr if t == "while" else set())))))
            if self.zero_trip:
                return live_out | body_in | hdr
            return (body_in | hdr) if t == "for" else (body_in | hdr)
        return live_out


def _cf_nodes(nodes, acc):
    import onnx
    for n in nodes:
        if n.op_type in ("If", "Loop"):
            acc.append((n.op_type, len(n.output)))
            for a in n.attribute:
                if a.type == onnx.AttributeProto.GRAPH:
                    _cf_nodes(a.g.node, acc)


def selection_probe(prog, fproto):
    """-> list of labels for If/Loop nodes that return fewer values than the program needs."""
    try:
        true = Liveness(prog, True).expected
        weak = Liveness(prog, False).expected
    except Exception:  # noqa: BLE001
        return []
    got = []
    _cf_nodes(fproto.node, got)
    if len(got) != len(true) or any(g[0] != t[0] for g, t in zip(got, true)):
        return []
    out = []
    for (kind, n), (_, want), (_, want_weak) in zip(got, true, weak):
        if n < len(want):
            why = "live-only-through-zero-trip-loop" if len(want_weak) <= n else "live-variable"
            out.append(f"{kind}-output-missing:{why}")
    return sorted(set(out))


def reads_loop_variable_after_loop(prog):
    """True when a top-level statement (or the return) after a top-level ``for`` reads that loop's variable:
    python leaves the last index there, an ONNX Loop has no such output."""
    body = prog["body"]
    for idx, st in enumerate(body):
        if st[0] != "for":
            continue
        later = set()
        _uses(body[idx + 1:], later)
        _uses(prog["ret"], later)
        if st[1] in later:
            return True
    return False


def loop_skeleton(stmts):
    out = []
    for s in stmts:
        if s[0] == "if":
            inner = ";".join(x for x in (loop_skeleton(s[2]), loop_skeleton(s[3])) if x)
            if inner:
                out.append(f"if{{{inner}}}")
        elif s[0] == "for":
            inner = loop_skeleton(s[3])
            out.append("for" + ("+break" if s[4] else "") + (f"{{{inner}}}" if inner else ""))
        elif s[0] == "while":
            inner = loop_skeleton(s[2])
            out.append("while" + ("+break" if s[3] else "") + (f"{{{inner}}}" if inner else ""))
    return ";".join(out)
